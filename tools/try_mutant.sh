#!/usr/bin/env bash
# usage: tools/try_mutant.sh <patch.diff> [tier] [props...]
# Applies a seeded change to /repo, runs the given checks (default: all, quick), and undoes it straight afterwards.
set -u
cd "$(dirname "$0")/.."
patch="$(realpath "$1")"; shift
tier="${1:-quick}"; shift || true
props=("$@")
if ! git -C /repo diff --quiet; then echo "/repo has uncommitted changes; refusing" >&2; exit 2; fi
git -C /repo apply "$patch" || { echo "patch does not apply" >&2; exit 2; }
trap 'git -C /repo checkout -- . ; git -C /repo clean -fdq -- x custom app 2>/dev/null' EXIT
out="out/mutant-$(basename "$(dirname "$patch")")"
mkdir -p "$out"
# evidence and replay files of mutant runs go to a scratch verif dir, never into /verif/evidence
MV="$(mktemp -d /tmp/mutverif_XXXXXX)"; cp known_findings.json "$MV"/; cp -r findings "$MV"/
./check build || exit 2
[ ${#props[@]} -eq 0 ] && props=(C01 C02 C03 C04 C05 C06 C07 C08 C09 C10 C11 C12 C13 C14 C15 C16 C17 C18 C19 C20)
caught=()
for p in "${props[@]}"; do
  out/bin/verif-sim check -prop "$p" -tier "$tier" -verif "$MV" > "$out/$p.log" 2>&1; rc=$?
  line=$(grep -v '^KNOWN' "$out/$p.log" | tail -1 | cut -c1-160)
  echo "$p exit=$rc $line"
  if [ $rc -eq 1 ]; then caught+=("$p"); grep '^violation:' "$out/$p.log" | head -3 | cut -c1-260; fi
done
echo "CAUGHT BY: ${caught[*]:-none}"
mkdir -p "$out/replays"; cp "$MV"/out/*/min-*.json "$out/replays/" 2>/dev/null; rm -rf "$MV"
