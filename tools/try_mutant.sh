#!/usr/bin/env bash
# usage: tools/try_mutant.sh <patch.diff> [tier] [props...]
# Evaluates a seeded change WITHOUT touching /repo: a scratch worktree of /repo's HEAD gets the patch, the
# simulator is built against it into a scratch binary, the given checks run with a scratch verif directory
# (known findings + witnesses copied), and everything is removed again. Logs: out/mutant-<name>/.
set -u
cd "$(dirname "$0")/.."
patch="$(realpath "$1")"; shift
tier="${1:-quick}"; shift || true
props=("$@")
export GOFLAGS=-mod=mod GOPROXY=off GOSUMDB=off GOTOOLCHAIN=local CGO_ENABLED=0
name="$(basename "$(dirname "$patch")")-$(basename "$patch" .diff)"
out="out/mutant-$name"; mkdir -p "$out/replays"
WT=$(mktemp -d /tmp/mwt_XXXXXX); SM=$(mktemp -d /tmp/msim_XXXXXX); MV=$(mktemp -d /tmp/mverif_XXXXXX)
cleanup() { git -C /repo worktree remove --force "$WT" 2>/dev/null; rm -rf "$SM" "$MV" "$WT"; }
trap cleanup EXIT
git -C /repo worktree add -q --detach "$WT" HEAD || exit 2
git -C "$WT" apply "$patch" || { echo "patch does not apply" >&2; exit 2; }
cp sim/*.go "$SM"/
( cd "$SM" && { sed -e 's#^module .*#module verifsim#' "$WT/go.mod"; echo; echo "require github.com/terra-money/alliance v0.0.0"; echo "replace github.com/terra-money/alliance => $WT"; } > go.mod && cp "$WT/go.sum" . && go build -o "$SM/verif-sim" . ) > "$out/build.log" 2>&1 || { echo "BUILD FAILED"; tail -5 "$out/build.log"; exit 2; }
cp known_findings.json "$MV"/; cp -r findings "$MV"/
[ ${#props[@]} -eq 0 ] && props=(C01 C02 C03 C04 C05 C06 C07 C08 C09 C10 C11 C12 C13 C14 C15 C16 C17 C18 C19 C20)
caught=()
for p in "${props[@]}"; do
  VERIF_REPO="$WT" "$SM/verif-sim" check -prop "$p" -tier "$tier" -verif "$MV" > "$out/$p.log" 2>&1; rc=$?
  line=$(grep -v '^KNOWN' "$out/$p.log" | tail -1 | cut -c1-150)
  echo "$p exit=$rc $line"
  if [ $rc -eq 1 ]; then caught+=("$p"); grep '^violation:' "$out/$p.log" | head -2 | cut -c1-260; cp "$MV"/out/"$p"/min-*.json "$out/replays/" 2>/dev/null; fi
done
echo "CAUGHT BY: ${caught[*]:-none}"
