#!/usr/bin/env bash
# usage: tools/runall.sh [quick|thorough] [props...]   — runs the checks one after another and summarises
cd "$(dirname "$0")/.."
tier="${1:-quick}"; shift || true
props=("$@"); [ ${#props[@]} -eq 0 ] && props=(C01 C02 C03 C04 C05 C06 C07 C08 C09 C10 C11 C12 C13 C14 C15 C16 C17 C18 C19 C20)
mkdir -p out/runall
for p in "${props[@]}"; do
  ./check "$p" "$tier" > "out/runall/$p.log" 2>&1; rc=$?
  echo "$p exit=$rc $(grep -v '^KNOWN' out/runall/$p.log | tail -1 | cut -c1-200)"
  grep '^violation:' "out/runall/$p.log" | cut -c1-300
done
