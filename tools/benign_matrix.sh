#!/usr/bin/env bash
# usage: tools/benign_matrix.sh [budget_s] [workers] — runs every check against each behaviour-preserving change in
# benign/ (scratch worktrees only); any "CAUGHT BY" other than none is a false alarm of the named check.
cd "$(dirname "$0")/.."
B="${1:-15}"; W="${2:-8}"
for f in benign/B*.diff; do
  res=$(VERIF_BUDGET_S=$B VERIF_WORKERS=$W tools/try_mutant.sh "$f" quick 2>&1 | tail -1)
  echo "$(basename $f .diff): $res"
done
