#!/usr/bin/env bash
# usage: tools/build_sim_at.sh <repo-commit> <out-binary>
# Builds the simulator against a scratch worktree of /repo at <commit> (outside /repo and /verif),
# then removes the worktree and the scratch module again. Used to confirm that witnesses of fixed
# findings fail on the tree just before their fix.
set -eu
C="$1"; OUT="$2"
export GOFLAGS=-mod=mod GOPROXY=off GOSUMDB=off GOTOOLCHAIN=local CGO_ENABLED=0
WT=$(mktemp -d /tmp/wt_XXXXXX); SM=$(mktemp -d /tmp/simsrc_XXXXXX)
git -C /repo worktree add -q --detach "$WT" "$C"
cp /verif/sim/*.go "$SM"/
( cd "$SM" && { sed -e 's#^module .*#module verifsim#' "$WT/go.mod"; echo; echo "require github.com/terra-money/alliance v0.0.0"; echo "replace github.com/terra-money/alliance => $WT"; } > go.mod && cp "$WT/go.sum" . && go build -o "$OUT" . )
git -C /repo worktree remove --force "$WT"; rm -rf "$SM"
echo "built $OUT against $C"
