#!/usr/bin/env python3
"""Regenerates /verif/MANIFEST.json from the table below (claimed checks) and properties.jsonl."""
import json, os
HERE = os.path.dirname(os.path.dirname(os.path.abspath(__file__)))
props = [json.loads(l) for l in open(os.path.join(HERE, 'properties.jsonl'))]
T = "deterministic simulation with fault injection: seeded search over schedules and fault sequences on the real app, "
CLAIMED = {
 "C01": ("custody equation (bank balance of the custody account = staked total + pending unbondings + third-party transfers) evaluated exactly, per asset, after every transaction, slash and block boundary of every seeded run",
         T + "exact custody ledger oracle after every step"),
 "C02": ("an exact ledger of unbonding entries (fed by successful undelegations, observed slash fractions and the scheduler's clock) is compared with the module's queue and index after every step and with the bank transfers out of custody at every end-of-block; block gaps are aimed at the completion instant (-1ns, 0, +1ns)",
         T + "reference-model ledger oracle for payouts, boundary-aimed block times"),
 "C03": ("share sums recomputed from raw store records after every step (delegations vs validator totals, validators vs asset total, no negatives, reset on drain) and cross-checked against the module's own registered invariants",
         T + "raw-store recomputation of share invariants after every step"),
 "C04": ("after every successful delegate/undelegate/redelegate/claim the exact rational value of every position of the asset is compared before/after: the actor moves by the requested amount, every other position by at most the fixed-point tolerance derived from the state; reported balances must not sum above the staked total; fresh positions are probed for round-trip profit",
         T + "per-transition exact value comparison over all positions"),
 "C05": ("after every step, on discarded branches: a funded user delegates 1 unit and a large amount to every validator and whitelisted asset, and every position with a positive reported balance claims and undelegates its full balance; errors and panics are violations unless they match an open finding by call site and precondition",
         T + "non-destructive liveness probes on discarded branches in every reachable state"),
 "C06": ("every slash that reaches the hooks (double-sign evidence, downtime, direct) is compared against an exact-rational model of the share system: positions on the slashed validator (1-f)g, all others g, staked totals unchanged",
         T + "exact rational share model around every slash"),
 "C07": ("around every slash the module's pending unbonding entries must equal the exact ledger (floor(f x balance) off the slashed validator's entries only), exactly the reductions must reach the fee collector, and redelegation destinations must lose f x redelegated amount; same-block packings of several validators/denoms/destinations are generated on purpose",
         T + "exact ledger and share-model oracle around every slash, same-bucket packing bias"),
 "C08": ("captured x/staking log lines and recovered panics for every slash, rebalance flag and completeness against the models, plus a totality probe (BeforeValidatorSlashed for every validator with rotating fractions on a discarded branch) after every step of every run",
         T + "hook totality probe on discarded branches in every reachable state"),
 "C09": ("every end-of-block is compared with the stated take-rate rule: fires iff a whole interval elapsed, floor(T(1-r)^n) with interval acceptance for the 18-digit Power error, exact custody->fee-collector transfer, clock advance by n intervals, proportional shrink of every position, no charge in warm-up or at rate zero, never to zero, and no retroactive charge of later deposits; block gaps are aimed at the claim boundary and include multi-interval halts and dust-only periods",
         T + "closed-form take-rate reference model at every end-of-block, boundary-aimed clock"),
 "C10": ("after every end-of-block of a block in which alliance stake, native stake, weights, a slash or a bond status changed, each bonded validator's alliance-minted stake is compared with the target recomputed from the post-state (2 base units, plus the module's integer mis-measurement of native stake where exchange rates differ from 1); non-bonded validators must not be adjusted",
         T + "fixed-point target recomputation after every triggering block"),
 "C11": ("with minting disabled, the staking-denom supply net of the module's own stake is tracked exactly across every step (unchanged by alliance operations and rebalances, lowered only by real slash burns and by the burn of coins sent to custody), custody must hold no staking denom after end-of-block, staking-denom coins may leave custody only as forwarded rewards, and SupplyOf/TotalSupply (paginated and not) must report supply minus the independently recomputed alliance-bonded amount",
         T + "closed-form net-supply ledger from bank mint/burn/transfer events after every step"),
 "C12": ("after every step every position's accrued entitlement (what the reward indexes assign to it now) is summed and compared with the pool balance (the deficit must not grow in any step: value-changing events must not inflate accrued entitlements; growth is excused only up to what the open findings' mechanism explains, computed from the state); on a discarded branch all pending rewards are settled and all positions claim sequentially in a rotating order; reward flow includes inflation, fee top-ups in several denoms and take-rate proceeds recycled through the fee collector",
         T + "solvency deficit measurement and claim-for-everyone probes on discarded branches"),
 "C13": ("eager exact-rational entitlement ledgers credited at every observed settlement (split across assets by weight x tokens/total and across positions by value, from the pre-step state) are compared with the payout of every explicit and implicit claim; second-claim and new-stake probes on discarded branches; nothing may be pending for the module in x/distribution right after a stake change; runs avoid value-changing slashes and take rate (C12's territory) but jail validators without slashing",
         T + "eager reference ledger for reward entitlements vs actual payouts"),
 "C14": ("after every step weights must lie within range; every end-of-block is compared with the stated decay rule (due iff a whole interval elapsed, clamp(w x rate^n) with an 18-digit error bound, clock advance by n intervals), initialisation must flip at the first end-of-block at or after the start time, and right after any weight change (governance or decay) no validator may have rewards pending in x/distribution; block gaps are aimed at the decay boundary",
         T + "closed-form decay reference model, pending-reward probe at every weight change"),
 "C15": ("value moved, custody/staked total/user balances, the three redelegation stores cross-checked against an exact ledger in both directions after every step, onward-hop probes while pending and right after maturity, block gaps aimed at the completion instant",
         T + "reference ledger for the three redelegation stores plus hop probes"),
 "C16": ("the four governance messages and three legacy contents are delivered with right and wrong authorities and fields from a boundary catalogue (nil, negative, 0, 1-ulp, 1, huge; bad denoms; negative/huge durations) interleaved with user traffic, decay and aborts; wrong authority must be rejected, the asset predicate is checked after every step of every kind, updates must leave totals/denom/start/initialised untouched, deletes need an empty asset, creates are unique",
         T + "governance boundary-value traffic inside full histories, asset predicate as inductive invariant"),
 "C17": ("the real module-manager EndBlocker runs after every block of every run with governance parameters drawn from everything the handlers accept, dust-only and drained assets, jailed/removed validators, halts of hours to months; an error or panic inside x/alliance is a violation",
         T + "end-of-block totality under accepted-parameter fuzzing and long halts"),
 "C18": ("every schedule is executed twice from genesis; the second run performs export -> delete every module key -> import -> export on its real state at the marked block boundaries (second export must equal the first byte for byte) and the two runs' observables (results, errors, balances, assets, positions, pending entries, staking view, weight snapshots, query answers) are compared step by step for the rest of the schedule",
         T + "lock-step differential of original vs re-imported run"),
 "C19": ("every block is executed on two sibling branches of the committed state and then for real: per-step results, event lists and the raw KV content of the alliance, bank, staking, distribution, slashing and mint stores must be byte-identical; every 8th schedule is re-executed in fresh processes at GOMAXPROCS 1 and 16 and per-block app hashes compared; crash before commit must reproduce the app hash; a go/ast scan of the module's non-test sources (range over map, time.Now, math/rand, go statements, unsafe, %p) only prints informational notes and never decides the check",
         T + "sibling-branch and cross-process re-execution with byte comparison"),
 "C20": ("every unbonding, redelegation and delegation query (all filter combinations, default-size pages followed through NextKey, uniform and mixed page sizes) and the contract bindings are compared with an independent raw-store enumeration after every step; reported balances are probed for undelegatability on discarded branches",
         T + "query answers vs raw-store reference enumeration after every step"),
}
NA_REASON = "check under construction in this session (its simulator monitor is not committed yet); not a claim that the technique cannot apply"
checks = []
for p in props:
    pid = p['id']
    if pid in CLAIMED:
        text, tech = CLAIMED[pid]
        checks.append({
            "property_id": pid,
            "quick_cmd": f"./check {pid} quick",
            "thorough_cmd": f"./check {pid} thorough",
            "evidence_file": f"/verif/evidence/{pid}.json",
            "replay_cmd_template": "./check replay {path}",
            "engine": "verif-sim",
            "level_claimed": {"category": "exploration", "text": text, "design_ref": "DESIGN.md section 5, " + pid},
            "level_note": "sampling over seeded schedules and fault sequences, not proof; baseapp.runTx and CometBFT are stubbed as described in DESIGN.md 2.1; small worlds (<=8 validators, <=6 delegators, <=4 assets, <=70 blocks per run; a flood scenario takes counts above 100 in a few percent of the runs of C02, C06-C08, C18, C20; a validator-removal scenario - x/staking removes a validator that carries alliance stake - runs once in 6-12 % of the runs of C01-C03, C05-C08, C10, C11, C17-C20 and not in the others, DESIGN.md section 8); open known findings in /verif/known_findings.json are reported as KNOWN-FINDING lines",
            "technique": tech,
        })
na = [{"property_id": p['id'], "reason": NA_REASON} for p in props if p['id'] not in CLAIMED]
m = {
 "version": 1,
 "setup_cmd": "./check build",
 "hooks": {"guard": "verif",
           "enable": "no source hooks are needed: every seam (sdk.Context header/votes/comet-info/gas meter, log.Logger, dbm.DB, CacheContext, keeper interfaces) already exists; the harness module replaces github.com/terra-money/alliance with /repo",
           "baseline_off_cmd": "cd /repo && GOFLAGS=-mod=mod GOPROXY=off GOSUMDB=off GOTOOLCHAIN=local go test -vet=off -count=1 -timeout 25m ./...",
           "source_commits": [], "add_only": True},
 "engines": [{"name": "verif-sim", "path": "/verif/sim", "serves_properties": [c["property_id"] for c in checks],
              "kind_free_text": "deterministic whole-application simulator (Go): seeded scheduler owning block time, block packing, votes, evidence, tx aborts, crashes; per-property monitors with exact reference models; ddmin minimiser; replay files"}],
 "checks": checks,
 "not_applicable": na,
 "notes": "exit 0 = held on everything explored (KNOWN-FINDING lines for open entries of known_findings.json); exit 1 + VIOLATION line = unlisted violation; exit 2 = infrastructure (build failure, a worker that dies, a violation that does not reproduce in a fresh process). Runs abandoned by the 4-minute watchdog and block failures without a frame of the module are NOTE lines and evidence counters, never an exit code. Budgets: VERIF_BUDGET_S, VERIF_WORKERS, VERIF_SEED."
}
if not na:
    del m["not_applicable"]
json.dump(m, open(os.path.join(HERE, 'MANIFEST.json'), 'w'), indent=1)
print("claimed:", [c["property_id"] for c in checks])
