#!/usr/bin/env bash
# usage: tools/verify_seeded.sh <agent-dir> <seeded-id> <property> "<needs>"
# Confirms, in a fresh scratch worktree, that the seeded change compiles, passes the existing suite, and that its
# demonstration fails with the change and passes without it; then stores it under /verif/seeded/<id>/.
set -u
A="$1"; ID="$2"; PROP="$3"; NEEDS="$4"; PAT="${5:-TestSeeded}"
export GOFLAGS=-mod=mod GOPROXY=off GOSUMDB=off GOTOOLCHAIN=local
WT=$(mktemp -d /tmp/vs_XXXXXX)
git -C /repo worktree add -q --detach "$WT" HEAD || exit 2
trap 'git -C /repo worktree remove --force "$WT" 2>/dev/null; rm -rf "$WT"' EXIT
demo=$(cd "$A" && find . -name 'seeded_*_test.go' | head -1)
[ -z "$demo" ] && { echo "no demo test found"; exit 2; }
git -C "$WT" apply "$A/patch.diff" || { echo "patch does not apply"; exit 2; }
cp "$A/$demo" "$WT/$demo"
pkg="./$(dirname "$demo")"
cd "$WT"
go build ./... || { echo "BUILD FAILS"; exit 1; }
go test -vet=off -count=1 -run "$PAT" "$pkg" > /tmp/vs_demo_with.log 2>&1; with=$?
go test -vet=off -count=1 -skip "$PAT" ./... > /tmp/vs_suite.log 2>&1; suite=$?
git checkout -q -- x/alliance/tests/benchmark/benchmark_genesis.json 2>/dev/null
git apply -R "$A/patch.diff"
go test -vet=off -count=1 -run "$PAT" "$pkg" > /tmp/vs_demo_without.log 2>&1; without=$?
echo "$ID: demo_with_change_exit=$with suite_with_change_exit=$suite demo_without_change_exit=$without"
if [ $with -ne 0 ] && [ $suite -eq 0 ] && [ $without -eq 0 ]; then
  D=/verif/seeded/$ID; mkdir -p "$D"
  cp "$A/patch.diff" "$D/patch.diff"; cp "$A/$demo" "$D/$(basename "$demo").txt"; cp "$A/NOTES.md" "$D/NOTES.md" 2>/dev/null
  python3 - "$D" "$ID" "$PROP" "$NEEDS" "$demo" <<'PY'
import json,sys
d,i,p,n,demo=sys.argv[1:6]
json.dump({"id":i,"breaks_property":p,"needs_to_manifest":n,"demonstration":demo,
 "confirmed":{"compiles":True,"existing_suite_passes_with_change":True,"demonstration_fails_with_change":True,"demonstration_passes_without_change":True,
   "how":"tools/verify_seeded.sh in a fresh scratch worktree of /repo HEAD: go build ./...; go test -run TestSeeded <pkg> (fails); go test -skip TestSeeded ./... (passes); git apply -R; go test -run TestSeeded <pkg> (passes)"},
 "source":"independent sub-agent given only the property text and its own scratch worktree"},open(d+"/meta.json","w"),indent=1)
PY
  echo "KEPT $D"
else
  echo "NOT KEPT (see /tmp/vs_*.log)"; tail -5 /tmp/vs_demo_with.log /tmp/vs_suite.log /tmp/vs_demo_without.log | cut -c1-200
fi
