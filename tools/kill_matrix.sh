#!/usr/bin/env bash
# usage: tools/kill_matrix.sh [budget_s] [workers]  — re-runs every stored seeded change (seeded/S*) and every own mutant
# (mutants/M*) against the check(s) recorded as catching it; prints one line per change. Scratch worktrees only.
cd "$(dirname "$0")/.."
B="${1:-30}"; W="${2:-8}"
for d in seeded/S*/; do
  id=$(basename "$d"); props=$(python3 -c "import json;print(' '.join(json.load(open('$d/meta.json')).get('detected_by',{}).keys()))")
  res=$(VERIF_BUDGET_S=$B VERIF_WORKERS=$W tools/try_mutant.sh "$d/patch.diff" quick $props 2>&1 | tail -1)
  echo "$id [$props] $res"
done
grep '^| M' mutants/KILL_MATRIX.md | while IFS='|' read -r _ m what run caught _; do
  m=$(echo $m); caught=$(echo "$caught" | sed 's/(.*//; s/,/ /g; s/none.*//'); props=$(echo $caught)
  [ -z "$props" ] && { echo "$m [-] equivalent (not run)"; continue; }
  f=$(ls mutants/${m}_*.diff | head -1)
  res=$(VERIF_BUDGET_S=$B VERIF_WORKERS=$W tools/try_mutant.sh "$f" quick $props 2>&1 | tail -1)
  echo "$m [$props] $res"
done
