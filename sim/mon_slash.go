package main

import (
	"fmt"
	"math/big"
	"runtime/debug"
	"sort"
	"strings"
	"time"

	sdkmath "cosmossdk.io/math"
	sdk "github.com/cosmos/cosmos-sdk/types"
)

type timeT = time.Time

// slashEval is the shared evaluation of one step in which k >= 1 slashes reached the hooks.
type slashEval struct {
	pre, post *Snap
	model     *ShareState   // Q': pre-state with all slashes applied as implemented (known defects included)
	scaled    *ShareState   // pre-state with only the bonded cut of the (single) slash applied
	groups    []*redelGroup // single-slash steps: the records slashed
	single    bool
	val       string
	f         *big.Rat
	cuts      map[string]sdkmath.Int // unbonding reductions per denom (must reach the fee collector)
	destPos   map[PosKey]bool        // destination positions of pending redelegations out of the slashed validator(s)
	ambiguous map[string]bool        // validator|denom where the full-withdraw rounding decision is within fixed-point error
}

// wipedOut: the slashes of this step left (almost) no validator shares of the asset although it keeps its staked
// total (every validator that held it was cut by ~100 %). Token values are then quotients of rounding remainders
// (or the module's "no shares: everything" rule) and are not compared; the state itself is the open finding
// C12-entitlement-inflated-in-fully-slashed-asset / C05-zero-value-validator.
func (ev *slashEval) wipedOut(denom string) bool {
	pre := ShareStateOf(ev.pre)
	a, b := pre.S[denom], ev.model.S[denom]
	if a == nil || b == nil || a.Sign() <= 0 {
		return false
	}
	return b.Sign() <= 0 || rquo(b, a).Cmp(big.NewRat(1, 1_000_000_000)) < 0
}

// growth is how much larger than before the slash a value stated in tokens has become: rounding remainders of up
// to one base unit that arise before the redistribution are scaled with it.
func growth(before, after *big.Rat) *big.Rat {
	if before.Sign() <= 0 || after.Cmp(before) <= 0 {
		return big.NewRat(1, 1)
	}
	return rquo(after, before)
}

// redistribution is the factor by which every remaining position of an asset grows because the value cut from
// redelegation destinations left their validators: the asset's validator-share total before / after those cuts.
func (ev *slashEval) redistribution(denom string) *big.Rat {
	if ev.scaled == nil {
		return big.NewRat(1, 1)
	}
	a, b := ev.scaled.S[denom], ev.model.S[denom]
	if a == nil || b == nil || b.Sign() <= 0 {
		return big.NewRat(1, 1)
	}
	return rquo(a, b)
}

// evalSlashes advances the ledger and builds the models. Must be called exactly once per step.
func evalSlashes(l *Ledger, st *Step) *slashEval {
	ev := &slashEval{pre: st.Pre, post: st.Post, cuts: map[string]sdkmath.Int{}, destPos: map[PosKey]bool{}, ambiguous: map[string]bool{}}
	ev.model = ShareStateOf(st.Pre)
	ev.single = len(st.Slashes) == 1
	for _, s := range st.Slashes {
		f := ratDec(s.Fraction)
		groups := groupsFor(l, s.Val, st.Post.Time)
		if ev.single {
			ev.val, ev.f, ev.groups = s.Val, f, groups
			ev.scaled = ShareStateOf(st.Pre)
			ev.scaled.SlashBonded(s.Val, f)
		}
		ev.model.SlashBonded(s.Val, f)
		touched, amb := ev.model.SlashRedelegationsAsImplementedAmb(groups, f)
		for _, p := range touched {
			ev.destPos[p] = true
		}
		for k := range amb {
			ev.ambiguous[k] = true
		}
		for _, g := range groups {
			ev.destPos[PosKey{Del: g.Del, Val: g.Dst, Denom: g.Denom}] = true
		}
		for d, c := range l.OnSlash(s.Val, s.Fraction, st.Post.Time) {
			cur, ok := ev.cuts[d]
			if !ok {
				cur = sdkmath.ZeroInt()
			}
			ev.cuts[d] = cur.Add(c)
		}
	}
	return ev
}

// feedLedger keeps the unbonding/redelegation ledgers current for non-slash steps.
func feedLedger(l *Ledger, st *Step) {
	if st.Kind == "op" && st.Res.OK {
		switch st.ROp.Op.K {
		case "undelegate":
			l.OnUndelegate(st)
		case "redelegate":
			l.OnRedelegate(st)
		}
	}
	if st.Kind == "end" {
		l.Mature(st.Post.Time)
		l.MatureRedelegations(st.Post.Time)
	}
}

func sortedPos(m map[PosKey]bool) []PosKey {
	var out []PosKey
	for p := range m {
		out = append(out, p)
	}
	sort.Slice(out, func(i, j int) bool { return out[i].String() < out[j].String() })
	return out
}

func allPositions(a, b *Snap) []PosKey {
	m := map[PosKey]bool{}
	for p := range a.Dels {
		m[p] = true
	}
	for p := range b.Dels {
		m[p] = true
	}
	return sortedPos(m)
}

// compareModel checks the post-state against the as-implemented model Q' (exact up to tol).
// Any mismatch is a violation that no known finding excuses.
func compareModel(r *Runner, clause string, ev *slashEval) bool {
	for _, p := range allPositions(ev.pre, ev.post) {
		if ev.ambiguous[p.Val+"|"+p.Denom] {
			r.Probe("slash_full_withdraw_decision_within_rounding_error")
			continue
		}
		if ev.wipedOut(p.Denom) {
			r.Probe("slash_left_asset_without_validator_shares")
			continue
		}
		want := ev.model.PosValue(p)
		got := ev.post.PosValue(p)
		// amount moved on this validator: at most what it holds
		tol := tolMax(ev.pre, ev.post, p.Val, p.Denom, maxRat(ev.pre.ValTokens(p.Val, p.Denom), ev.post.ValTokens(p.Val, p.Denom)))
		tol = radd(rmul(tol, growth(ev.pre.PosValue(p), want)), rmul(want, getR(ev.model.RelErr, p.Denom)))
		if !within(want, got, tol) {
			kind := "bonded"
			if ev.destPos[p] {
				kind = "redelegation-destination"
			}
			shares := func(s *Snap) string {
				if d, ok := s.Dels[p]; ok {
					return d.Shares.String()
				}
				return "none"
			}
			r.Violate(clause, "slash-effect-mismatch:"+kind, fmt.Sprintf("position %s: value after slash %s, reference model %s (before %s; delegation shares %s -> %s)", p, rstr(got), rstr(want), rstr(ev.pre.PosValue(p)), shares(ev.pre), shares(ev.post)))
			return false
		}
	}
	return true
}

// ---------------------------------------------------------------------------
// C06 bonded slashing: proportional, targeted, value-conserving
// ---------------------------------------------------------------------------

type monC06 struct {
	L    Ledger
	dead bool
}

func newMonC06() *monC06           { return &monC06{} }
func (m *monC06) Name() string     { return "C06" }
func (m *monC06) Finish(r *Runner) {}

func (m *monC06) OnStep(r *Runner, st *Step) {
	if m.dead {
		return
	}
	if hookFailed(st) {
		m.dead = true
		r.Probe("run_abandoned_after_hook_error")
		return
	}
	if len(st.Slashes) == 0 {
		feedLedger(&m.L, st)
		return
	}
	ev := evalSlashes(&m.L, st)
	pre, post := st.Pre, st.Post
	// staked totals untouched
	for d, a := range pre.Assets {
		r.Eval("C06.b")
		if pa, ok := post.Assets[d]; !ok || !pa.TotalTokens.Equal(a.TotalTokens) {
			r.Violate("C06.b", "total-tokens-changed", fmt.Sprintf("asset %s staked total %s -> %s across a slash", d, a.TotalTokens, post.Assets[d].TotalTokens))
			return
		}
	}
	hadStake := false
	for _, s := range st.Slashes {
		if vi, ok := pre.ValInfos[s.Val]; ok && len(vi.ValidatorShares) > 0 {
			hadStake = true
			if len(vi.ValidatorShares) > 1 {
				r.Probe("c06_multi_asset_validator")
			}
		}
		if s.Fraction.Equal(sdkmath.LegacyOneDec()) {
			r.Probe("c06_full_slash")
		}
	}
	if hadStake {
		r.Nontrivial()
		r.Probe("c06_slash_with_stake")
	}
	if !ev.single {
		r.Probe("c06_multi_slash_step")
	}
	r.Eval("C06.a")
	if !compareModel(r, "C06.a", ev) {
		return
	}
	if !ev.single {
		return
	}
	// stated clause on the single slash (V, f): positions that are not destinations of a pending
	// redelegation out of V are worth (1-f)g (on V) or g (elsewhere) times their previous value;
	// g follows from the validator-share algebra. Value taken from redelegation destinations on the
	// same validator may only add to that (redistribution), never subtract.
	for _, p := range allPositions(pre, post) {
		if ev.destPos[p] || ev.ambiguous[p.Val+"|"+p.Denom] || ev.wipedOut(p.Denom) {
			continue
		}
		// (value taken from redelegation destinations leaves their validator like a bonded slash does: the asset's
		// validator-share total shrinks and every remaining position scales by the same second factor)
		base := rmul(ev.scaled.PosValue(p), ev.redistribution(p.Denom))
		got := post.PosValue(p)
		tol := radd(rmul(tolMax(pre, post, p.Val, p.Denom, maxRat(base, got)), growth(pre.PosValue(p), base)), rmul(base, getR(ev.model.RelErr, p.Denom)))
		if got.Cmp(rsub(base, tol)) < 0 {
			r.Violate("C06.a", "position-lost-value", fmt.Sprintf("slash of %s by %s: position %s worth %s, proportional rule gives %s", short(ev.val), rstr(ev.f), p, rstr(got), rstr(base)))
			return
		}
		dPre := ratDec(decCoinsAmount(pre.ValInfos[p.Val].TotalDelegatorShares, p.Denom))
		dPost := ratDec(decCoinsAmount(post.ValInfos[p.Val].TotalDelegatorShares, p.Denom))
		if !within(base, got, tol) {
			r.Violate("C06.a", "position-gained-value", fmt.Sprintf("slash of %s by %s: position %s worth %s, proportional rule gives %s", short(ev.val), rstr(ev.f), p, rstr(got), rstr(base)))
			return
		}
		if dPre.Cmp(dPost) != 0 {
			r.Probe("c06_bystander_on_slashed_destination_validator")
		}
		// assets without stake on V: untouched exactly
		if getRR(ShareStateOf(pre).VS, ev.val, p.Denom).Sign() == 0 && ev.redistribution(p.Denom).Cmp(big.NewRat(1, 1)) == 0 {
			r.Eval("C06.c")
			if !pre.Dels[p].Shares.Equal(post.Dels[p].Shares) || pre.PosValue(p).Cmp(post.PosValue(p)) != 0 {
				if dPre.Cmp(dPost) == 0 {
					r.Violate("C06.c", "unrelated-asset-touched", fmt.Sprintf("position %s in an asset without stake on the slashed validator changed", p))
					return
				}
			}
		}
	}
}

// ---------------------------------------------------------------------------
// C07 slashing of pending unbondings / redelegations: exact, single, scoped
// ---------------------------------------------------------------------------

type monC07 struct {
	L    Ledger
	dead bool
}

func newMonC07() *monC07           { return &monC07{} }
func (m *monC07) Name() string     { return "C07" }
func (m *monC07) Finish(r *Runner) {}

func (m *monC07) OnStep(r *Runner, st *Step) {
	if m.dead {
		return
	}
	if hookFailed(st) {
		m.dead = true
		r.Probe("run_abandoned_after_hook_error")
		return
	}
	if len(st.Slashes) == 0 {
		feedLedger(&m.L, st)
		if st.Kind == "op" && st.Res.OK && (st.ROp.Op.K == "undelegate" || st.ROp.Op.K == "redelegate") {
			m.probePacking(r)
		}
		return
	}
	pendU, pendR := len(m.L.PendingU()), len(m.L.PendingR())
	ev := evalSlashes(&m.L, st)
	post := st.Post
	hit := false
	for _, c := range ev.cuts {
		if c.IsPositive() {
			hit = true
		}
	}
	if hit {
		r.Probe("c07_unbonding_slashed")
	}
	if len(ev.destPos) > 0 {
		r.Probe("c07_redelegation_slashed")
		hit = true
	}
	if hit {
		r.Nontrivial()
	}
	if pendU > 0 || pendR > 0 {
		r.Probe("c07_slash_with_pending_entries")
	}
	for _, e := range m.L.PendingU() {
		if e.Completion.Equal(post.Time) {
			r.Probe("c07_slash_at_completion_instant")
		}
	}
	// (a)(b) every pending unbonding entry: exactly floor(f x balance) off the slashed validator's
	// entries, everything else byte-identical
	r.Eval("C07.a")
	onlyStore, onlyLedger := diffMultiset(storeUnbondingKeys(post), m.L.unbondingKeys())
	if len(onlyStore)+len(onlyLedger) > 0 {
		r.Violate("C07.a", "unbonding-slash-mismatch", fmt.Sprintf("after slash: module has %v, exact model has %v", trimList(onlyStore), trimList(onlyLedger)))
		return
	}
	// (c) exactly the reductions reach the fee collector
	r.Eval("C07.c")
	fl := flowsOf(st.Events)
	denoms := map[string]bool{}
	for d := range ev.cuts {
		denoms[d] = true
	}
	for i := range r.W.Cfg.Assets {
		denoms[AllianceDenoms[i]] = true
	}
	for _, d := range sortedKeys(denoms) {
		want, ok := ev.cuts[d]
		if !ok {
			want = sdkmath.ZeroInt()
		}
		got := netTransfer(fl, r.W.ModuleAddr.String(), r.W.FeeCollector.String(), d).Sub(returnedRewards(r, st.Events).AmountOf(d))
		if !got.Equal(want) {
			r.Violate("C07.c", "fee-collector-amount", fmt.Sprintf("slash moved %s %s from custody to the fee collector, entry reductions sum to %s", got, d, want))
			return
		}
	}
	// (d)(e) redelegation destinations
	r.Eval("C07.d")
	if !compareModel(r, "C07.d", ev) {
		return
	}
	if !ev.single {
		r.Probe("c07_multi_slash_step")
		return
	}
	// stated clause: the destination position loses f x (amount redelegated out of V), capped
	byPos := map[PosKey]*big.Rat{}
	merged := map[PosKey]bool{}
	for _, g := range ev.groups {
		p := PosKey{Del: g.Del, Val: g.Dst, Denom: g.Denom}
		cur, ok := byPos[p]
		if !ok {
			cur = new(big.Rat)
		}
		byPos[p] = radd(cur, rmul(ev.f, ratInt(g.FromV)))
		if g.Merged {
			merged[p] = true
			r.Probe("c07_merged_sources")
		}
	}
	for _, p := range sortedPos(ev.destPos) {
		if _, ok := st.Pre.Dels[p]; !ok {
			r.Probe("c07_destination_emptied")
			continue
		}
		if ev.ambiguous[p.Val+"|"+p.Denom] || ev.wipedOut(p.Denom) {
			continue
		}
		base := ev.scaled.PosValue(p)
		loss := minRat(byPos[p], base)
		// the value cut from destinations is redistributed over the asset entry by entry: a position loses its
		// f x amount somewhere between "before any of that redistribution" and "after all of it"
		G := ev.redistribution(p.Denom)
		want := rmul(rsub(base, loss), G)
		wantHi := rsub(rmul(base, G), byPos[p])
		if wantHi.Cmp(want) < 0 {
			wantHi = want
		}
		got := post.PosValue(p)
		tol := radd(rmul(radd(tolMax(st.Pre, post, p.Val, p.Denom, maxRat(base, byPos[p])), big.NewRat(int64(len(ev.groups)), 1)), growth(st.Pre.PosValue(p), rmul(base, G))), rmul(rmul(base, G), getR(ev.model.RelErr, p.Denom)))
		if got.Cmp(rsub(want, tol)) >= 0 && got.Cmp(radd(wantHi, tol)) <= 0 {
			continue
		}
		// deviation from the statement that the as-implemented model reproduces: classify by precondition
		cls := "redel-slash-amount"
		switch {
		case merged[p]:
			cls = "redel-merged-sources"
		case got.Cmp(wantHi) > 0:
			// the slashed value is redistributed among the delegators of the destination validator,
			// the slashed position included
			cls = "redel-slash-redistributed-within-destination"
		}
		r.Violate("C07.d", cls, fmt.Sprintf("slash of %s by %s: destination position %s worth %s, statement gives %s (before %s, f x redelegated = %s)", short(ev.val), rstr(ev.f), p, rstr(got), rstr(want), rstr(base), rstr(byPos[p])))
		if r.failed() {
			return
		}
	}
}

func (m *monC07) probePacking(r *Runner) {
	bucket := map[string]map[string]bool{}
	for _, e := range m.L.PendingU() {
		k := fmt.Sprintf("%s|%d", e.Del, e.Completion.UnixNano())
		if bucket[k] == nil {
			bucket[k] = map[string]bool{}
		}
		bucket[k][e.Val+"|"+e.Denom] = true
	}
	for _, b := range bucket {
		if len(b) > 1 {
			r.Probe("c07_bucket_with_several_validators_or_denoms")
			break
		}
	}
}

// ---------------------------------------------------------------------------
// C08 the slash callback is total
// ---------------------------------------------------------------------------

type monC08 struct {
	L    Ledger
	step int
	dead bool
}

func newMonC08() *monC08           { return &monC08{} }
func (m *monC08) Name() string     { return "C08" }
func (m *monC08) Finish(r *Runner) {}

var probeFractions = []string{"0.0001", "0.05", "1"}

func (m *monC08) OnStep(r *Runner, st *Step) {
	if m.dead {
		return
	}
	m.step++
	// (a) no swallowed hook error, no panic
	for _, l := range st.Logs {
		if strings.Contains(l.Msg, "failed to call before validator slashed hook") || strings.Contains(l.Msg, "failed to call before validator modified hook") {
			r.Eval("C08.a")
			cls := "hook-error:" + m.classifyHookErr(r, st.Pre, l.KV)
			if cls != "hook-error:reward-pool-shortfall" && redelIntoRecreated(r, st.Pre, "") {
				cls = "hook-error:redelegation-into-validator-removed-by-staking-and-created-again"
			}
			r.Violate("C08.a", cls, fmt.Sprintf("x/staking logged %q%s", l.Msg, l.KV))
			// excused by an open finding: the half-applied slash is its consequence, the models no longer describe this run
			m.dead = true
			return
		}
	}
	if st.Kind == "slash" && st.Res != nil && st.Res.Panic && isAllianceFailure(st.Res.Err, st.Res.Stack) {
		r.Eval("C08.a")
		cls := "hook-panic:" + classifyErr(st.Res.Err)
		if st.ROp != nil && strings.Contains(st.Res.Stack, "slashRedelegations") && redelIntoRecreated(r, st.Pre, sdk.ValAddress(st.ROp.Val).String()) {
			cls = "hook-panic:redelegation-into-validator-removed-by-staking-and-created-again"
		}
		r.Violate("C08.a", cls, "slash callback panicked: "+st.Res.Err)
		return
	}
	if len(st.Slashes) > 0 {
		r.Eval("C08.a")
		r.Eval("C08.b")
		r.Nontrivial()
		pendR := len(m.L.PendingR())
		ev := evalSlashes(&m.L, st)
		if pendR > 0 {
			r.Probe("c08_slash_with_pending_redelegations")
		}
		for _, p := range sortedPos(ev.destPos) {
			if _, ok := st.Pre.Dels[p]; !ok {
				r.Probe("c08_destination_emptied")
			}
		}
		// (b) a rebalance is scheduled
		if !st.Post.Flag {
			r.Violate("C08.b", "no-rebalance-queued", "slash reached the hooks but no rebalance is queued afterwards")
			return
		}
		// (c) completeness: all effects applied (as-implemented model, unbonding ledger)
		r.Eval("C08.c")
		onlyStore, onlyLedger := diffMultiset(storeUnbondingKeys(st.Post), m.L.unbondingKeys())
		if len(onlyStore)+len(onlyLedger) > 0 {
			r.Violate("C08.c", "slash-incomplete:unbondings", fmt.Sprintf("module has %v, exact model has %v", trimList(onlyStore), trimList(onlyLedger)))
			return
		}
		if !compareModel(r, "C08.c", ev) {
			return
		}
	} else {
		feedLedger(&m.L, st)
	}
	// totality probe in every reachable state: the hook itself, every validator, rotating fractions
	vals := st.Post.StValOrder
	for i, v := range vals {
		f := mustDec(probeFractions[(m.step+i)%len(probeFractions)])
		va, err := sdk.ValAddressFromBech32(v)
		if err != nil {
			continue
		}
		r.Eval("C08.probe")
		perr, pan := m.probeHook(r, va, f)
		// a pending redelegation out of v lands on a validator record that was deleted when x/staking removed
		// the validator and created again empty (open finding): the destination delegation holds more shares than
		// the record, reducing it underflows
		onRecreated := redelIntoRecreated(r, st.Post, v)
		if pan != "" {
			cls := "probe-panic:" + classifyErr(pan)
			if onRecreated && strings.Contains(pan, "slashRedelegations") {
				cls = "probe-panic:redelegation-into-validator-removed-by-staking-and-created-again"
			}
			r.Violate("C08.a", cls, fmt.Sprintf("BeforeValidatorSlashed(%s, %s) panics in this state: %s", short(v), f, pan))
			if r.failed() {
				return
			}
			continue
		}
		if perr != nil {
			cls := "probe-error:" + m.classifyHookErr(r, st.Post, perr.Error())
			if onRecreated && cls != "probe-error:reward-pool-shortfall" {
				cls = "probe-error:redelegation-into-validator-removed-by-staking-and-created-again"
			}
			r.Violate("C08.a", cls, fmt.Sprintf("BeforeValidatorSlashed(%s, %s) fails in this state: %v", short(v), f, perr))
			if r.failed() {
				return
			}
		}
	}
}

// redelIntoRecreated: a pending redelegation out of src (any source when src is empty) points at a position on a
// validator whose record was deleted when x/staking removed the validator (open finding, see Runner.strandedPos).
func redelIntoRecreated(r *Runner, s *Snap, src string) bool {
	if s == nil {
		return false
	}
	for _, ix := range s.RedelIdx {
		if (src == "" || ix.Src == src) && r.strandedPos(s, ix.Dst, ix.Denom) {
			return true
		}
	}
	return false
}

func (m *monC08) probeHook(r *Runner, va sdk.ValAddress, f sdkmath.LegacyDec) (err error, pan string) {
	ctx := r.Branch()
	defer func() {
		if rec := recover(); rec != nil {
			pan = fmt.Sprintf("panic: %v%s", rec, allianceFrames(string(debug.Stack())))
		}
	}()
	err = r.W.App.AllianceKeeper.StakingHooks().BeforeValidatorSlashed(ctx, va, f)
	return
}

// classifyHookErr names the failing call site. The hook performs two kinds of bank sends that can
// fail: unbonding reductions out of custody (impossible while custody covers every pending entry,
// which is checked here against the state) and the reward claim for a redelegation destination
// (pool shortfall: the open C12 finding). Anything else keeps its generic class.
func (m *monC08) classifyHookErr(r *Runner, s *Snap, e string) string {
	if strings.Contains(e, "insufficient funds") && strings.Contains(e, "spendable balance") {
		covered := true
		for d, p := range s.PendingUnbonding() {
			if s.BalOf(r.W.ModuleAddr, d).LT(p) {
				covered = false
			}
		}
		if covered {
			return "reward-pool-shortfall"
		}
		return "custody-shortfall"
	}
	return classifyErr(e)
}

// hookFailed reports whether x/staking logged a failing slash hook in this step. The slash is then
// only partly applied: that is C08's finding; the value/entry models of the other monitors no longer
// describe the run, so they stop judging it.
func hookFailed(st *Step) bool {
	for _, l := range st.Logs {
		if strings.Contains(l.Msg, "failed to call before validator slashed hook") {
			return true
		}
	}
	return false
}

// allianceFrames extracts the module's own frames (function names) from a stack trace, innermost first.
func allianceFrames(stack string) string {
	var out []string
	for _, l := range strings.Split(stack, "\n") {
		if strings.HasPrefix(l, "github.com/terra-money/alliance/x/alliance") {
			f := strings.TrimPrefix(l, "github.com/terra-money/alliance/x/alliance/")
			if i := strings.LastIndex(f, "("); i > 0 {
				f = f[:i]
			}
			out = append(out, f)
			if len(out) == 4 {
				break
			}
		}
	}
	if len(out) == 0 {
		return ""
	}
	return " [in " + strings.Join(out, " <- ") + "]"
}
