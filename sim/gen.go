package main

import (
	"fmt"
	"os"
	"strconv"
	"time"
)

// Profile biases the generator towards the situations one property cares about.
// It never fixes the configuration: everything is still drawn per run.
type Profile struct {
	Name        string
	MinBlocks   int
	MaxBlocks   int
	MaxOps      int
	W           map[string]int // op-kind weights
	PSlash      float64        // per block: direct slash
	PEvidence   float64        // per block: double-sign evidence
	PDowntime   float64        // per block: start an absent run
	PCrash      float64
	PGas        float64 // per op
	PDup        float64 // per op
	PBoundary   float64 // per block: dt aimed at a deadline
	PHalt       float64 // per block: long halt
	Inflation   float64 // probability that minting is on
	FeeTopups   bool
	SameBlock   float64 // probability of an op reusing the previous op's delegator (bucket sharing)
	GovWild     bool    // draw governance fields from the boundary catalogue
	ParamsWild  bool    // draw params from whatever could be accepted
	Dust        float64 // probability of a dust-magnitude asset
	Huge        float64 // probability of an 18-decimals asset
	TakeRates   []string
	ShortUnbond float64         // probability of a short unbonding time (maturities inside the run)
	BoundaryTo  []string        // preferred deadline kinds for boundary-aimed block gaps
	DecayBias   float64         // probability that an asset decays (default 0.35)
	MinAssets   int             // at least this many assets (C19: several assets and reward denoms per validator)
	JailOnly    float64         // per run: downtime slash fraction 0, validators are jailed (leave the bonded set) without any value change and without a slash callback
	PFlood      float64         // per run: a flood (every delegator on every validator in every denom, then 18 blocks in which everybody exits a little from one validator: more than 100 delegation records, queue buckets and index keys of one validator), a slash of that validator and a jump past all completion times
	NoLongAddr  bool            // every delegator has a key (the ABCI differential signs transactions)
	PDrain      float64         // per block: start a drain (every known position of one asset exits in full over two blocks, then a new staking cycle begins)
	MaxValWild  float64         // probability that a staking-params change also changes MaxValidators (validators pushed out of / let into the bonded set without jailing)
	PGhost      float64         // per run: one validator-removal scenario (alliance stake on a validator that x/staking then removes: everybody including the operator leaves it while the module holds no staking delegation there)
	PBurst      float64         // per block: start a packed scenario (same-block multi-denom/multi-validator exits, fan-in redelegations, ...)
	PExport     float64         // per block: export/import (hard fork) at the block boundary
	Clean       map[string]bool // preconditions of open known findings the generator must avoid (clean mode)
}

func baseProfile() *Profile {
	return &Profile{
		Name: "base", MinBlocks: 12, MaxBlocks: 60, MaxOps: 5,
		W: map[string]int{
			"delegate": 30, "undelegate": 16, "redelegate": 14, "claim": 10,
			"n_delegate": 5, "n_undelegate": 5, "n_redelegate": 2,
			"unjail": 3, "create_validator": 1, "donate": 3,
			"gov_create": 2, "gov_update": 3, "gov_delete": 1, "gov_params": 1, "gov_staking_params": 1,
		},
		PSlash: 0.06, PEvidence: 0.03, PDowntime: 0.03, PCrash: 0.02, PGas: 0.05, PDup: 0.03,
		PDrain:    0.015,
		PBoundary: 0.25, PHalt: 0.04, Inflation: 0.6, FeeTopups: true, SameBlock: 0.45,
		Dust: 0.15, Huge: 0.3, TakeRates: []string{"0", "0", "0.000001", "0.001", "0.5", "0.99"},
		ShortUnbond: 0.8,
	}
}

var unitChoices6 = []string{"1000000", "1000000", "1000", "1000000000", "1000000000000"}
var unitChoices18 = []string{"1000000000000000000", "1000000000000000000000000", "100000000000000000000000000"}
var unitChoicesDust = []string{"1", "3", "100"}

func genConfig(rng *RNG, p *Profile) Config {
	c := Config{}
	nv := rng.Range(2, 6)
	for i := 0; i < nv; i++ {
		bond := []string{"1000000", "2000000", "5000000", "10000000", "100000000", "1000000000000"}[rng.Intn(6)]
		comm := []string{"0", "0.05", "0.1", "0.5"}[rng.Intn(4)]
		c.Validators = append(c.Validators, ValCfg{SelfBond: bond, Commission: comm})
	}
	c.Delegators = rng.Range(2, 6)
	c.LongAddrDelegator = !p.NoLongAddr && rng.Chance(0.3)
	c.Natives = rng.Range(1, 3)
	na := rng.Range(1, 4)
	if p.MinAssets > na {
		na = p.MinAssets
	}
	anyGenesis := false
	for i := 0; i < na; i++ {
		a := AssetCfg{}
		a.Genesis = rng.Chance(0.75)
		if i == na-1 && !anyGenesis {
			a.Genesis = true
		}
		anyGenesis = anyGenesis || a.Genesis
		switch {
		case rng.Chance(p.Dust):
			a.Unit = unitChoicesDust[rng.Intn(len(unitChoicesDust))]
		case rng.Chance(p.Huge):
			a.Unit = unitChoices18[rng.Intn(len(unitChoices18))]
		default:
			a.Unit = unitChoices6[rng.Intn(len(unitChoices6))]
		}
		a.Weight = []string{"0", "0.01", "0.1", "0.5", "1", "2"}[rng.Intn(6)]
		a.WeightMin = []string{"0", "0", a.Weight, "0.001"}[rng.Intn(4)]
		if mustDec(a.WeightMin).GT(mustDec(a.Weight)) {
			a.WeightMin = a.Weight
		}
		a.WeightMax = []string{"5", a.Weight, "2", "100"}[rng.Intn(4)]
		if mustDec(a.WeightMax).LT(mustDec(a.Weight)) {
			a.WeightMax = a.Weight
		}
		a.TakeRate = p.TakeRates[rng.Intn(len(p.TakeRates))]
		db := 0.35
		if p.DecayBias > 0 {
			db = p.DecayBias
		}
		if rng.Chance(db) {
			a.ChangeRate = []string{"0.5", "0.9", "0.999", "1.1", "2"}[rng.Intn(5)]
			a.ChangeIntvlNs = []int64{int64(time.Second), int64(7 * time.Second), int64(time.Minute), int64(time.Hour)}[rng.Intn(4)]
			// half-configured decay (an interval with rate 1, a rate without interval): accepted by governance,
			// inert until a later update completes it
			switch rng.Intn(8) {
			case 0:
				a.ChangeRate = "1"
			case 1:
				a.ChangeIntvlNs = 0
			}
		} else {
			a.ChangeRate = "1"
			a.ChangeIntvlNs = 0
		}
		a.StartDelayNs = []int64{0, 0, int64(5 * time.Second), int64(time.Minute), int64(time.Hour)}[rng.Intn(5)]
		c.Assets = append(c.Assets, a)
	}
	c.RewardDelayNs = []int64{0, int64(3 * time.Second), int64(time.Minute), int64(time.Hour)}[rng.Intn(4)]
	c.TakeRateIntvlNs = []int64{int64(time.Second), int64(5 * time.Second), int64(time.Minute), int64(5 * time.Minute), int64(time.Hour)}[rng.Intn(5)]
	if rng.Chance(p.ShortUnbond) {
		c.UnbondingTimeNs = []int64{int64(10 * time.Second), int64(30 * time.Second), int64(2 * time.Minute), int64(10 * time.Minute)}[rng.Intn(4)]
	} else {
		c.UnbondingTimeNs = []int64{int64(time.Hour), int64(24 * time.Hour), int64(21 * 24 * time.Hour)}[rng.Intn(3)]
	}
	// never below the number of genesis validators (all of them start bonded); equal to it makes
	// create_validator and native delegations compete for slots
	c.MaxValidators = uint32([]int{100, 100, nv, nv, nv + 1}[rng.Intn(5)])
	c.SignedWindow = int64(rng.Range(3, 20))
	c.MinSigned = []string{"0.05", "0.5", "0.9"}[rng.Intn(3)]
	c.SlashDowntime = []string{"0.0001", "0.01", "0.5", "1"}[rng.Intn(4)]
	if p.JailOnly > 0 && rng.Chance(p.JailOnly) {
		c.SlashDowntime = "0"
	}
	c.SlashDoubleSign = []string{"0.0001", "0.05", "0.5", "1"}[rng.Intn(4)]
	c.JailNs = []int64{0, int64(5 * time.Second), int64(10 * time.Minute)}[rng.Intn(3)]
	if rng.Chance(p.Inflation) {
		c.Inflation = []string{"0.13", "0.5", "1"}[rng.Intn(3)]
		c.BlocksPerYear = []uint64{1000, 100000, 6311520}[rng.Intn(3)]
	} else {
		c.Inflation = "0"
		c.BlocksPerYear = 6311520
	}
	c.CommunityTax = []string{"0", "0.02", "0.5"}[rng.Intn(3)]
	return c
}

type genState struct {
	rng         *RNG
	p           *Profile
	cfg         *Config
	pos         [][3]int // (who,val,denom) positions the generator believes exist
	nvals       int      // validator slots believed to exist
	extra       int      // create_validator ops issued
	absent      map[int]int
	lastWho     int
	unbondNs    int64
	futureOps   map[int][]Op // block index -> ops scheduled by a burst
	futureSlash map[int][]Op
	forceDt     map[int]DtSpec // block gaps fixed by a flood
	futureGhost int            // block index of this run's validator-removal scenario (-1 = none)
}

func (g *genState) amtDelegate(denom int) *Amt {
	r := g.rng
	unit := g.cfg.Assets[denom%len(g.cfg.Assets)].Unit
	switch r.Pick([]int{50, 15, 15, 8, 6, 3, 3}) {
	case 0:
		u := mustInt(unit)
		return &Amt{Abs: u.MulRaw(int64(r.Range(1, 100))).String()}
	case 1:
		return &Amt{Abs: strconv.Itoa(r.Range(1, 10))}
	case 2:
		return &Amt{Pct: r.Range(1, 40)}
	case 3:
		u := mustInt(unit)
		return &Amt{Abs: u.MulRaw(int64(r.Range(100, 3000))).String()}
	case 4:
		return &Amt{All: true}
	case 5:
		return &Amt{AllPlus: 1}
	default:
		return &Amt{Abs: []string{"0", "-5"}[r.Intn(2)]}
	}
}

func (g *genState) amtExit() *Amt {
	r := g.rng
	switch r.Pick([]int{30, 30, 10, 8, 8, 8, 3, 3}) {
	case 0:
		return &Amt{All: true}
	case 1:
		return &Amt{Pct: r.Range(1, 99)}
	case 2:
		return &Amt{Abs: strconv.Itoa(r.Range(1, 10))}
	case 3:
		return &Amt{AllPlus: -1}
	case 4:
		return &Amt{AllPlus: 1}
	case 5:
		return &Amt{Pct: 50}
	case 6:
		return &Amt{AllPlus: 1000}
	default:
		return &Amt{Abs: "0"}
	}
}

func (g *genState) pickPos() (int, int, int, bool) {
	if len(g.pos) == 0 || g.rng.Chance(0.1) {
		return g.rng.Intn(g.cfg.Delegators), g.rng.Intn(g.nvals), g.rng.Intn(len(g.cfg.Assets)), false
	}
	// prefer positions of the previous actor (several entries per bucket)
	if g.rng.Chance(g.p.SameBlock) {
		var mine []int
		for i, p := range g.pos {
			if p[0] == g.lastWho {
				mine = append(mine, i)
			}
		}
		if len(mine) > 0 {
			p := g.pos[mine[g.rng.Intn(len(mine))]]
			return p[0], p[1], p[2], true
		}
	}
	p := g.pos[g.rng.Intn(len(g.pos))]
	return p[0], p[1], p[2], true
}

func (g *genState) addPos(who, val, denom int) {
	for _, p := range g.pos {
		if p == [3]int{who, val, denom} {
			return
		}
	}
	g.pos = append(g.pos, [3]int{who, val, denom})
}

var decCatalogue = []string{"nil", "-1", "-0.000000000000000001", "0", "0.000000000000000001", "0.5", "0.999999999999999999", "1", "1.000000000000000001", "2", "1000000000000000000"}
var durCatalogue = []int64{-1, -1000000000, 0, 1, 1000, int64(time.Second), int64(time.Hour), 1 << 62}

func (g *genState) govFields(kind string) map[string]string {
	r := g.rng
	f := map[string]string{}
	if g.p.GovWild && r.Chance(0.6) {
		for _, k := range []string{"weight", "min", "max", "take", "crate"} {
			if r.Chance(0.5) {
				f[k] = decCatalogue[r.Intn(len(decCatalogue))]
			}
		}
		if r.Chance(0.5) {
			f["cintvl"] = strconv.FormatInt(durCatalogue[r.Intn(len(durCatalogue))], 10)
		}
		if r.Chance(0.15) {
			f["denom"] = []string{"", "x", "bad denom!", "stake", "ibc/" + "F0F0", "1abc"}[r.Intn(6)]
		}
		return f
	}
	w := []string{"0", "0.01", "0.1", "0.5", "1", "2"}[r.Intn(6)]
	f["weight"] = w
	f["min"] = []string{"0", w, "0.001"}[r.Intn(3)]
	if mustDec(f["min"]).GT(mustDec(w)) {
		f["min"] = w
	}
	f["max"] = []string{"5", w, "100"}[r.Intn(3)]
	if mustDec(f["max"]).LT(mustDec(w)) {
		f["max"] = w
	}
	f["take"] = g.p.TakeRates[r.Intn(len(g.p.TakeRates))]
	if r.Chance(0.4) {
		f["crate"] = []string{"0.5", "0.9", "0.999", "1.1", "2"}[r.Intn(5)]
		f["cintvl"] = strconv.FormatInt([]int64{int64(time.Second), int64(7 * time.Second), int64(time.Minute), int64(time.Hour)}[r.Intn(4)], 10)
		switch r.Intn(8) {
		case 0:
			f["crate"] = "1"
		case 1:
			f["cintvl"] = "0"
		}
	} else {
		f["crate"] = "1"
		f["cintvl"] = "0"
	}
	return f
}

func (g *genState) authority() string {
	if g.rng.Chance(0.8) {
		return "gov"
	}
	return []string{"user", "module", "third", "garbage", "empty"}[g.rng.Intn(5)]
}

func (g *genState) genOp() Op {
	r := g.rng
	kinds := make([]string, 0, len(g.p.W))
	for _, k := range opKindOrder {
		if g.p.W[k] > 0 {
			kinds = append(kinds, k)
		}
	}
	ws := make([]int, len(kinds))
	for i, k := range kinds {
		ws[i] = g.p.W[k]
	}
	k := kinds[r.Pick(ws)]
	op := Op{K: k}
	switch k {
	case "delegate":
		who := r.Intn(g.cfg.Delegators)
		if r.Chance(g.p.SameBlock) {
			who = g.lastWho
		}
		op.Who, op.Val, op.Denom = who, r.Intn(g.nvals), r.Intn(len(g.cfg.Assets))
		op.Amt = g.amtDelegate(op.Denom)
		g.addPos(op.Who, op.Val, op.Denom)
		g.lastWho = who
	case "undelegate":
		who, val, denom, _ := g.pickPos()
		op.Who, op.Val, op.Denom, op.Amt = who, val, denom, g.amtExit()
		g.lastWho = who
	case "redelegate":
		who, val, denom, _ := g.pickPos()
		dst := r.Intn(g.nvals)
		if dst == val && r.Chance(0.9) {
			dst = (val + 1) % g.nvals
		}
		op.Who, op.Val, op.Dst, op.Denom, op.Amt = who, val, dst, denom, g.amtExit()
		g.addPos(who, dst, denom)
		g.lastWho = who
	case "claim":
		who, val, denom, _ := g.pickPos()
		op.Who, op.Val, op.Denom = who, val, denom
	case "n_delegate":
		op.Who, op.Val = r.Intn(g.cfg.Natives), r.Intn(g.nvals)
		op.Amt = &Amt{Abs: []string{"1", "1000", "1000000", "50000000", "3000000000000"}[r.Intn(5)]}
	case "n_undelegate":
		op.Who, op.Val = r.Intn(g.cfg.Natives), r.Intn(g.nvals)
		op.Amt = []*Amt{{All: true}, {Pct: 50}, {Abs: "1"}, {Pct: 99}}[r.Intn(4)]
	case "n_redelegate":
		op.Who, op.Val, op.Dst = r.Intn(g.cfg.Natives), r.Intn(g.nvals), r.Intn(g.nvals)
		op.Amt = []*Amt{{All: true}, {Pct: 50}, {Abs: "1000"}}[r.Intn(3)]
	case "unjail":
		op.Val = r.Intn(g.nvals)
	case "create_validator":
		if g.extra < MaxExtraValidators {
			op.Val = len(g.cfg.Validators) + g.extra
			g.extra++
			g.nvals = len(g.cfg.Validators) + g.extra
		} else {
			op.Val = len(g.cfg.Validators)
		}
		op.Amt = &Amt{Abs: []string{"1000000", "5000000", "100000000"}[r.Intn(3)]}
	case "donate":
		op.To = []string{"alliance", "alliance", "fee_collector", "fee_collector", "user", "rewards_pool"}[r.Intn(6)]
		if !g.p.FeeTopups && op.To == "fee_collector" {
			op.To = "alliance"
		}
		op.Who = r.Intn(g.cfg.Delegators)
		op.Denom = r.Intn(len(g.cfg.Assets) + 2)
		op.Amt = &Amt{Abs: []string{"1", "1000", "1000000", "123456789"}[r.Intn(4)]}
	case "gov_create":
		op.Authority, op.Legacy, op.Basic = g.authority(), r.Chance(0.3), r.Chance(0.5)
		op.Denom = r.Intn(len(g.cfg.Assets))
		op.F = g.govFields(k)
	case "gov_update":
		op.Authority, op.Legacy, op.Basic = g.authority(), r.Chance(0.3), r.Chance(0.5)
		op.Denom = r.Intn(len(g.cfg.Assets))
		op.F = g.govFields(k)
	case "gov_delete":
		op.Authority, op.Legacy, op.Basic = g.authority(), r.Chance(0.3), r.Chance(0.5)
		op.Denom = r.Intn(len(g.cfg.Assets))
		if g.p.GovWild && r.Chance(0.1) {
			op.F = map[string]string{"denom": ""}
		}
	case "gov_params":
		op.Authority = g.authority()
		op.F = map[string]string{}
		if g.p.ParamsWild {
			if r.Chance(0.7) {
				op.F["intvl"] = strconv.FormatInt([]int64{-1, 0, 1, 1000, int64(time.Second), int64(time.Minute), 1 << 62}[r.Intn(7)], 10)
			}
			if r.Chance(0.5) {
				op.F["delay"] = strconv.FormatInt([]int64{-1, 0, 1, int64(time.Second), int64(time.Hour), 1 << 62}[r.Intn(6)], 10)
			}
			if r.Chance(0.5) {
				op.F["last"] = []string{"zero", "keep", "-1", "1", "-3600000000000", "3600000000000", "-9000000000000000000", "9000000000000000000"}[r.Intn(8)]
			}
		} else {
			if r.Chance(0.7) {
				op.F["intvl"] = strconv.FormatInt([]int64{1, int64(time.Second), int64(5 * time.Second), int64(time.Minute), int64(time.Hour)}[r.Intn(5)], 10)
			}
			if r.Chance(0.5) {
				op.F["delay"] = strconv.FormatInt([]int64{0, int64(time.Second), int64(time.Minute)}[r.Intn(3)], 10)
			}
			if r.Chance(0.3) {
				op.F["last"] = []string{"keep", "-1000000000", "-60000000000"}[r.Intn(3)]
			}
		}
	case "gov_staking_params":
		op.Authority = g.authority()
		ns := []int64{int64(time.Second), int64(10 * time.Second), int64(time.Minute), int64(time.Hour), int64(21 * 24 * time.Hour)}[r.Intn(5)]
		op.F = map[string]string{"unbonding_ns": strconv.FormatInt(ns, 10)}
		if g.p.MaxValWild > 0 && r.Chance(g.p.MaxValWild) {
			nv := len(g.cfg.Validators)
			op.F["max_validators"] = strconv.Itoa([]int{1, 2, max(1, nv-1), nv, nv + 1, 100}[r.Intn(6)])
		}
		if op.Authority == "gov" && ns > g.unbondNs {
			g.unbondNs = ns
		}
	}
	if r.Chance(g.p.PGas) {
		op.Gas = uint64([]int{1000, 5000, 12000, 20000, 35000, 60000, 90000, 150000}[r.Intn(8)] + r.Intn(3000))
	}
	if r.Chance(g.p.PDup) {
		op.Dup = 1
	}
	return op
}

var opKindOrder = []string{"delegate", "undelegate", "redelegate", "claim", "n_delegate", "n_undelegate", "n_redelegate", "unjail", "create_validator", "donate", "gov_create", "gov_update", "gov_delete", "gov_params", "gov_staking_params", "gov_slashing_params"}

func (g *genState) genDt() DtSpec {
	r := g.rng
	if r.Chance(g.p.PBoundary) {
		to := []string{"unbonding", "unbonding", "redelegation", "takerate", "takerate", "start", "decay"}[r.Intn(7)]
		if len(g.p.BoundaryTo) > 0 {
			to = g.p.BoundaryTo[r.Intn(len(g.p.BoundaryTo))]
		}
		off := []int64{-1, 0, 1, 0, 1, int64(time.Second)}[r.Intn(6)]
		return DtSpec{To: to, Off: off, Ns: int64(time.Second) * int64(r.Range(1, 8))}
	}
	if r.Chance(g.p.PHalt) {
		return DtSpec{Ns: []int64{int64(time.Hour), int64(26 * time.Hour), g.unbondNs + int64(time.Second), int64(30 * 24 * time.Hour)}[r.Intn(4)]}
	}
	switch r.Pick([]int{5, 15, 50, 20, 10}) {
	case 0:
		return DtSpec{Ns: 1}
	case 1:
		return DtSpec{Ns: int64(r.Range(1, 999)) * int64(time.Millisecond)}
	case 2:
		return DtSpec{Ns: int64(r.Range(1, 8)) * int64(time.Second)}
	case 3:
		return DtSpec{Ns: int64(r.Range(10, 90)) * int64(time.Second)}
	default:
		return DtSpec{Ns: int64(r.Range(2, 30)) * int64(time.Minute)}
	}
}

var slashFractions = []string{"0.0001", "0.01", "0.05", "0.5", "1", "0.25", "0.999999", "0.333333333333333333"}

// GenSchedule draws configuration and schedule for one run. The generator never looks at
// the system: the schedule is written first and only then executed.
func GenSchedule(prop string, seed, run uint64, p *Profile) *Schedule {
	rng := NewRNG(mixSeed(seed, propOrdinal(prop), run))
	flood := p.PFlood > 0 && rng.Chance(p.PFlood)
	if flood {
		// a world large enough for counts above 100: six delegators, five or six validators, three or four assets,
		// an unbonding time that outlasts the flood
		pp := *p
		pp.MinAssets, pp.ShortUnbond = 3, 0
		p = &pp
	}
	cfg := genConfig(rng, p)
	if flood {
		cfg.Delegators = 6
		for len(cfg.Validators) < 5 {
			cfg.Validators = append(cfg.Validators, ValCfg{SelfBond: "5000000", Commission: "0.05"})
		}
		if cfg.MaxValidators < uint32(len(cfg.Validators)) {
			cfg.MaxValidators = uint32(len(cfg.Validators))
		}
		if cfg.UnbondingTimeNs < int64(time.Hour) {
			cfg.UnbondingTimeNs = int64(time.Hour)
		}
		for i := range cfg.Assets {
			cfg.Assets[i].Genesis = true
		}
	}
	s := &Schedule{Version: 1, Property: prop, Seed: seed, Run: run, Config: cfg, Mode: "open"}
	g := &genState{rng: rng, p: p, cfg: &s.Config, nvals: len(cfg.Validators), absent: map[int]int{}, unbondNs: cfg.UnbondingTimeNs, futureOps: map[int][]Op{}, futureSlash: map[int][]Op{}, forceDt: map[int]DtSpec{}, futureGhost: -1}
	nb := rng.Range(p.MinBlocks, p.MaxBlocks)
	if flood {
		if nb < 36 {
			nb = 36
		}
		g.flood(rng.Range(2, nb-32))
	}
	if p.PGhost > 0 && rng.Chance(p.PGhost) {
		// per run, so that most runs of the property stay free of the open finding this scenario leads to
		g.futureGhost = rng.Range(1, max(1, nb-4))
	}
	for bi := 0; bi < nb; bi++ {
		if bi == g.futureGhost {
			g.ghost(bi)
		}
		b := Block{Dt: g.genDt(), Proposer: rng.Intn(8)}
		if d, ok := g.forceDt[bi]; ok {
			b.Dt = d
		}
		// absent runs (F2)
		if rng.Chance(p.PDowntime) {
			g.absent[rng.Intn(g.nvals)] = int(cfg.SignedWindow) + rng.Range(1, 4)
		}
		for v, left := range g.absent {
			_ = v
			if left <= 0 {
				delete(g.absent, v)
			}
		}
		for v := 0; v < g.nvals+MaxExtraValidators; v++ {
			if left, ok := g.absent[v]; ok && left > 0 {
				b.Absent = append(b.Absent, v)
				g.absent[v] = left - 1
			}
		}
		if rng.Chance(p.PEvidence) && bi > 1 {
			b.Evidence = append(b.Evidence, Evidence{Val: rng.Intn(g.nvals), Age: int64(rng.Range(1, 3)), PowerPct: []int{100, 100, 50, 200, 1000, 1}[rng.Intn(6)]})
		}
		if rng.Chance(p.PSlash) {
			b.Slashes = append(b.Slashes, Op{K: "slash_direct", Val: rng.Intn(g.nvals), Fraction: slashFractions[rng.Intn(len(slashFractions))], Age: int64(rng.Range(0, 2))})
		}
		if p.PBurst > 0 && rng.Chance(p.PBurst) {
			g.burst(bi)
		}
		if p.PDrain > 0 && rng.Chance(p.PDrain) {
			g.drain(bi)
		}
		b.Slashes = append(b.Slashes, g.futureSlash[bi]...)
		b.Ops = append(b.Ops, g.futureOps[bi]...)
		nops := rng.Range(0, p.MaxOps)
		for i := 0; i < nops; i++ {
			b.Ops = append(b.Ops, g.genOp())
		}
		if p.PExport > 0 && rng.Chance(p.PExport) {
			b.ExportImport = true
		}
		// exports at the very instant a pending entry completes (still in the store until the next block's cleanup)
		if p.PExport > 0 && (b.Dt.To == "unbonding" || b.Dt.To == "redelegation") && b.Dt.Off == 0 && rng.Chance(0.5) {
			b.ExportImport = true
		}
		if rng.Chance(p.PCrash) {
			b.Crash = []string{"before_commit", "after_commit"}[rng.Intn(2)]
		}
		s.Blocks = append(s.Blocks, b)
	}
	appendTail(s, g.unbondNs)
	return s
}

// appendTail adds the quiescent tail: no faults, validators unjailed, clock moved past every deadline.
func appendTail(s *Schedule, unbondNs int64) {
	s.TailFrom = len(s.Blocks)
	nslots := len(s.Config.Validators) + MaxExtraValidators
	var unjail []Op
	for v := 0; v < nslots; v++ {
		unjail = append(unjail, Op{K: "unjail", Val: v})
	}
	long := unbondNs + int64(11*time.Minute)
	s.Blocks = append(s.Blocks,
		Block{Dt: DtSpec{Ns: int64(11 * time.Minute)}, Ops: unjail},
		Block{Dt: DtSpec{Ns: long}},
		Block{Dt: DtSpec{Ns: long}},
		Block{Dt: DtSpec{Ns: int64(5 * time.Second)}},
		Block{Dt: DtSpec{Ns: int64(5 * time.Second)}},
		Block{Dt: DtSpec{Ns: int64(5 * time.Second)}},
	)
}

var propList = []string{"C01", "C02", "C03", "C04", "C05", "C06", "C07", "C08", "C09", "C10", "C11", "C12", "C13", "C14", "C15", "C16", "C17", "C18", "C19", "C20"}

func propOrdinal(p string) uint64 {
	for i, q := range propList {
		if q == p {
			return uint64(i + 1)
		}
	}
	return 0
}

// tierName is set by the worker/coordinator; the thorough tier explores longer and busier histories.
var tierName = "quick"

func profileFor(prop string) *Profile {
	p := profileForTier(prop)
	if v := os.Getenv("VERIF_PGHOST"); v != "" { // exploration knob, not used by any registered command
		if f, err := strconv.ParseFloat(v, 64); err == nil {
			p.PGhost = f
		}
	}
	if tierName == "thorough" {
		p.MaxBlocks = p.MaxBlocks * 3 / 2
		p.MaxOps += 2
		p.Name = prop + "/thorough"
	}
	return p
}

func profileForTier(prop string) *Profile {
	p := baseProfile()
	p.Name = prop
	switch prop {
	case "C01":
		p.PGhost = 0.1
		p.PBurst = 0.08
	case "C03":
		p.PGhost = 0.1
		p.PDrain = 0.08
		p.PBurst = 0.05
		p.TakeRates = []string{"0", "0.000001", "0.001", "0.25", "0.5", "0.99"}
	case "C17":
		p.PGhost = 0.06
		p.ParamsWild = true
		p.W["gov_params"] = 8
		p.W["gov_update"] = 5
		p.Dust = 0.3
		p.PHalt = 0.08
	case "C06", "C07", "C08":
		p.PGhost = 0.06
		p.PFlood = 0.04
		p.PBurst = 0.15
		p.PSlash, p.PEvidence, p.PDowntime = 0.18, 0.06, 0.05
		p.W["undelegate"], p.W["redelegate"] = 22, 24
		p.W["gov_create"], p.W["gov_update"], p.W["gov_delete"], p.W["gov_params"] = 1, 1, 0, 0
		p.SameBlock = 0.7
		p.PBoundary = 0.3
		p.MaxBlocks = 45
	case "C02":
		p.PGhost = 0.06
		p.PFlood = 0.04
		p.PBurst = 0.12
		p.W["undelegate"] = 30
		p.W["gov_staking_params"] = 3
		p.SameBlock = 0.7
		p.PBoundary = 0.4
		p.PSlash = 0.1
	case "C19":
		p.PGhost = 0.06
		p.PBurst = 0.12 // entries that tie on sort keys: same-block exits of several delegators
		p.PSlash = 0.1
		p.PCrash = 0.08
		p.MaxBlocks = 35
		p.FeeTopups = true
		p.W["donate"] = 8
		p.W["claim"] = 14
		p.MinAssets = 3
	case "C18":
		p.PGhost = 0.06
		p.PFlood = 0.05
		p.PBurst = 0.1
		p.PExport = 0.12
		p.MaxBlocks = 40
		p.W["undelegate"], p.W["redelegate"] = 20, 20
		p.SameBlock = 0.7
		p.PSlash = 0.08
		p.W["gov_update"] = 5
	case "C14":
		p.Inflation = 0.8
		p.W["gov_update"], p.W["gov_create"] = 12, 4
		p.BoundaryTo = []string{"decay", "decay", "start", "takerate"}
		p.PBoundary = 0.4
		p.PHalt = 0.03
		p.PSlash, p.PEvidence, p.PDowntime = 0.02, 0.01, 0.01
		p.DecayBias = 0.8
	case "C13":
		// clean configuration: no value-changing events between accrual and claim (those are C12)
		p.Inflation = 1
		p.PSlash, p.PEvidence, p.PDowntime = 0, 0, 0.06
		p.JailOnly = 1 // leaving and re-entering the bonded set is not a value-changing event
		p.W["unjail"] = 8
		p.W["create_validator"] = 2
		p.TakeRates = []string{"0"}
		p.W["claim"] = 18
		p.W["donate"] = 8
		p.W["gov_update"] = 5
		p.PGas = 0.03
	case "C12":
		p.Inflation = 1
		p.PSlash, p.PEvidence, p.PDowntime = 0.12, 0.04, 0.03
		p.Huge = 0.45
		p.W["claim"] = 16
		p.W["donate"] = 6
		p.MaxBlocks = 40
	case "C11":
		p.PGhost = 0.06
		p.Inflation = 0 // minting disabled: the expected net supply is closed-form
		p.W["n_delegate"], p.W["n_undelegate"], p.W["n_redelegate"] = 10, 10, 4
		p.W["donate"] = 6
		p.W["unjail"] = 5
		p.PSlash, p.PEvidence, p.PDowntime = 0.1, 0.04, 0.04
	case "C10":
		p.MaxValWild = 0.5
		p.W["gov_staking_params"] = 3
		p.PGhost = 0.1
		p.W["n_delegate"], p.W["n_undelegate"], p.W["n_redelegate"] = 14, 14, 5
		p.W["unjail"] = 6
		p.W["gov_update"] = 6
		p.W["create_validator"] = 3
		p.PSlash, p.PEvidence, p.PDowntime = 0.1, 0.04, 0.07
		p.JailOnly = 0.3 // a validator that is jailed without a slash leaves the set through AfterValidatorBeginUnbonding only
		p.Inflation = 0.3
		p.MaxOps = 3
	case "C09":
		p.TakeRates = []string{"0", "0.000001", "0.001", "0.5", "0.99", "0.1"}
		p.BoundaryTo = []string{"takerate", "takerate", "takerate", "start", "unbonding"}
		p.PBoundary = 0.45
		p.PHalt = 0.08
		p.Dust = 0.35
		p.W["gov_update"], p.W["gov_params"] = 8, 5
		p.W["redelegate"] = 6
		p.PSlash, p.PEvidence, p.PDowntime = 0.02, 0.01, 0.01
	case "C04":
		p.TakeRates = []string{"0", "0.5", "0.99", "0.001", "0.5"}
		p.PSlash = 0.12
		p.Dust, p.Huge = 0.25, 0.4
	case "C05":
		p.PGhost = 0.12
		p.PDrain = 0.06 // entering an asset again after everybody left
		p.PSlash, p.PEvidence, p.PDowntime = 0.12, 0.05, 0.05
		p.MaxBlocks = 40
	case "C20":
		p.PGhost = 0.1
		p.PFlood = 0.04
		p.PBurst = 0.12
		p.W["undelegate"], p.W["redelegate"] = 26, 22
		p.SameBlock = 0.75
		p.PSlash = 0.08
		p.MaxBlocks = 40
	case "C15":
		p.PBurst = 0.1
		p.W["redelegate"] = 40
		p.W["delegate"] = 25
		p.SameBlock = 0.75
		p.PBoundary = 0.4
		p.PGas = 0.12
		p.PSlash = 0.03
	case "C16":
		p.GovWild = true
		p.ParamsWild = true
		for _, k := range []string{"gov_create", "gov_update", "gov_delete", "gov_params"} {
			p.W[k] = 14
		}
		p.PGas = 0.15
	}
	return p
}

func describeProfile(p *Profile) string {
	return fmt.Sprintf("profile %s: blocks %d-%d, <=%d ops/block, slash %.2f evidence %.2f downtime %.2f crash %.2f gas %.2f dup %.2f boundary-dt %.2f halt %.2f",
		p.Name, p.MinBlocks, p.MaxBlocks, p.MaxOps, p.PSlash, p.PEvidence, p.PDowntime, p.PCrash, p.PGas, p.PDup, p.PBoundary, p.PHalt)
}

// burst schedules a packed scenario over the next few blocks: the situations the properties single
// out (several exits of one delegator in one block across validators/denoms, fan-in redelegations,
// a destination emptied before the source is slashed) are rare under independent random ops.
// flood: counts above 100. Two blocks in which every delegator takes a position on every validator in every denom
// (more than 100 delegation records), then 18 closely spaced blocks in which every delegator withdraws a little
// from one validator in every denom (more than 100 queue buckets, more than 300 index keys of that validator),
// then a slash of that validator, and finally one gap that lets everything mature at once.
func (g *genState) flood(at int) {
	r := g.rng
	nd, nv, na := g.cfg.Delegators, g.nvals, len(g.cfg.Assets)
	target := r.Intn(nv)
	for w := 0; w < nd; w++ {
		for v := 0; v < nv; v++ {
			for d := 0; d < na; d++ {
				unit := mustInt(g.cfg.Assets[d].Unit)
				bi := at + (w+v+d)%2
				g.futureOps[bi] = append(g.futureOps[bi], Op{K: "delegate", Who: w, Val: v, Denom: d, Amt: &Amt{Abs: unit.MulRaw(int64(r.Range(20, 60))).String()}})
				g.addPos(w, v, d)
			}
		}
	}
	g.forceDt[at+1] = DtSpec{Ns: int64(r.Range(1, 3)) * int64(time.Second)}
	for k := 0; k < 18; k++ {
		bi := at + 2 + k
		g.forceDt[bi] = DtSpec{Ns: int64(r.Range(1, 4)) * int64(time.Second)}
		for w := 0; w < nd; w++ {
			for d := 0; d < na; d++ {
				g.futureOps[bi] = append(g.futureOps[bi], Op{K: "undelegate", Who: w, Val: target, Denom: d, Amt: &Amt{Pct: r.Range(1, 4)}})
			}
		}
	}
	g.forceDt[at+20] = DtSpec{Ns: int64(r.Range(1, 4)) * int64(time.Second)}
	g.futureSlash[at+20] = append(g.futureSlash[at+20], Op{K: "slash_direct", Val: target, Fraction: slashFractions[r.Intn(len(slashFractions))], Age: 1})
	g.forceDt[at+21] = DtSpec{Ns: int64(r.Range(1, 4)) * int64(time.Second)}
	g.forceDt[at+22] = DtSpec{Ns: g.unbondNs + int64(time.Minute)}
}

// drain: every known position of one asset exits in full (largest validators in no particular order) over
// two blocks, so that the asset's staked total returns to zero with rounding dust from earlier take-rate
// deductions and slashes still around; then a second staking cycle starts.
func (g *genState) drain(bi int) {
	r := g.rng
	d := r.Intn(len(g.cfg.Assets))
	var ps [][3]int
	for _, p := range g.pos {
		if p[2] == d {
			ps = append(ps, p)
		}
	}
	for i := len(ps) - 1; i > 0; i-- {
		j := r.Intn(i + 1)
		ps[i], ps[j] = ps[j], ps[i]
	}
	for i, p := range ps {
		at := bi + i%2
		g.futureOps[at] = append(g.futureOps[at], Op{K: "undelegate", Who: p[0], Val: p[1], Denom: d, Amt: &Amt{All: true}})
	}
	// leftovers of positions the generator does not know about (created by packed scenarios)
	for i := 0; i < 3; i++ {
		g.futureOps[bi+1] = append(g.futureOps[bi+1], Op{K: "undelegate", Who: r.Intn(g.cfg.Delegators), Val: r.Intn(g.nvals), Denom: d, Amt: &Amt{All: true}})
	}
	unit := mustInt(g.cfg.Assets[d].Unit)
	who, val := r.Intn(g.cfg.Delegators), r.Intn(g.nvals)
	g.futureOps[bi+2] = append(g.futureOps[bi+2], Op{K: "delegate", Who: who, Val: val, Denom: d, Amt: &Amt{Abs: unit.MulRaw(int64(r.Range(1, 50))).String()}})
	g.addPos(who, val, d)
}

// ghost schedules the removal of a validator that carries alliance stake: x/staking removes a validator
// once it is unbonded and nobody holds shares of it; the alliance module's own staking delegation keeps a
// validator alive, so the scenario uses validators the module never delegated to (created outside the
// bonded set, or jailed before the first alliance deposit) and lets the operator and every native
// delegator leave.
func (g *genState) ghost(bi int) {
	r := g.rng
	var v int
	fresh := g.extra < MaxExtraValidators && (r.Chance(0.7) || g.p.PSlash == 0)
	if fresh {
		v = len(g.cfg.Validators) + g.extra
		g.extra++
		g.nvals = len(g.cfg.Validators) + g.extra
		g.futureOps[bi] = append(g.futureOps[bi], Op{K: "create_validator", Val: v, Amt: &Amt{Abs: []string{"1", "1000", "1000000"}[r.Intn(3)]}})
	} else {
		v = r.Intn(g.nvals)
		if g.p.PSlash > 0 { // profiles without slashes (C13) keep to validators created outside the bonded set
			g.futureSlash[bi] = append(g.futureSlash[bi], Op{K: "slash_direct", Val: v, Fraction: slashFractions[r.Intn(len(slashFractions))]})
		}
	}
	who, d := r.Intn(g.cfg.Delegators), r.Intn(len(g.cfg.Assets))
	at := bi + r.Intn(2)
	g.futureOps[at] = append(g.futureOps[at], Op{K: "delegate", Who: who, Val: v, Denom: d, Amt: g.amtDelegate(d)})
	g.addPos(who, v, d)
	// pending entries that name the validator when it disappears: part of the position starts unbonding, part moves on
	if r.Chance(0.5) {
		g.futureOps[bi+1] = append(g.futureOps[bi+1], Op{K: "undelegate", Who: who, Val: v, Denom: d, Amt: &Amt{Pct: r.Range(10, 60)}})
	}
	if r.Chance(0.3) {
		dst := (v + 1 + r.Intn(max(1, g.nvals-1))) % g.nvals
		g.futureOps[bi+1] = append(g.futureOps[bi+1], Op{K: "redelegate", Who: who, Val: v, Dst: dst, Denom: d, Amt: &Amt{Pct: r.Range(10, 40)}})
		g.addPos(who, dst, d)
	}
	for n := 0; n < g.cfg.Natives; n++ {
		g.futureOps[bi+1] = append(g.futureOps[bi+1], Op{K: "n_undelegate", Who: n, Val: v, Amt: &Amt{All: true}})
	}
	g.futureOps[bi+1] = append(g.futureOps[bi+1], Op{K: "n_undelegate", Self: true, Val: v, Amt: &Amt{All: true}})
	if fresh && r.Chance(0.5) {
		// a validator that was never bonded is removed at once: the same operator creates it again with enough
		// stake to enter the bonded set, and it is slashed while the entries from before are still pending
		g.futureOps[bi+2] = append(g.futureOps[bi+2], Op{K: "create_validator", Val: v, Amt: &Amt{Abs: []string{"5000000", "100000000"}[r.Intn(2)]}})
		if g.p.PSlash > 0 {
			g.futureSlash[bi+3] = append(g.futureSlash[bi+3], Op{K: "slash_direct", Val: v, Fraction: slashFractions[r.Intn(len(slashFractions))]})
		}
	} else {
		// past the validator's own unbonding period (a validator that was bonded is removed when it matures)
		g.forceDt[bi+2] = DtSpec{Ns: g.unbondNs + int64(r.Range(0, 3))*int64(time.Second)}
	}
	g.futureOps[bi+3] = append(g.futureOps[bi+3], Op{K: "claim", Who: who, Val: v, Denom: d}, Op{K: "undelegate", Who: who, Val: v, Denom: d, Amt: &Amt{All: true}})
}

func (g *genState) burst(bi int) {
	r := g.rng
	who := r.Intn(g.cfg.Delegators)
	na := len(g.cfg.Assets)
	va := r.Intn(g.nvals)
	vb := (va + 1 + r.Intn(max(1, g.nvals-1))) % g.nvals
	vc := (vb + 1 + r.Intn(max(1, g.nvals-1))) % g.nvals
	d1 := r.Intn(na)
	d2 := (d1 + 1) % na
	frac := slashFractions[r.Intn(len(slashFractions))]
	amt := func() *Amt {
		unit := mustInt(g.cfg.Assets[d1].Unit)
		return &Amt{Abs: unit.MulRaw(int64(r.Range(1, 50))).String()}
	}
	exit := func() *Amt { return []*Amt{{Pct: r.Range(10, 90)}, {All: true}, {Pct: 50}}[r.Intn(3)] }
	slashAt := bi + 2 + r.Intn(3)
	switch r.Intn(5) {
	case 4: // several delegators leave one validator for the same destination in one block (entries that tie on every
		// sort key except the delegator), then the source is slashed
		who2 := (who + 1) % g.cfg.Delegators
		who3 := (who + 2) % g.cfg.Delegators
		for _, w := range []int{who, who2, who3} {
			g.futureOps[bi] = append(g.futureOps[bi], Op{K: "delegate", Who: w, Val: va, Denom: d1, Amt: amt()})
			g.futureOps[bi+1] = append(g.futureOps[bi+1], Op{K: "redelegate", Who: w, Val: va, Dst: vb, Denom: d1, Amt: exit()})
			g.addPos(w, vb, d1)
		}
		if r.Chance(0.5) {
			g.futureOps[bi+1] = append(g.futureOps[bi+1], Op{K: "undelegate", Who: who2, Val: va, Denom: d1, Amt: &Amt{Pct: 50}}, Op{K: "undelegate", Who: who3, Val: va, Denom: d1, Amt: &Amt{Pct: 50}})
		}
		g.futureSlash[slashAt] = append(g.futureSlash[slashAt], Op{K: "slash_direct", Val: va, Fraction: frac, Age: 1})
	case 0: // same block: exits from one validator in two denoms and from a second validator
		g.futureOps[bi] = append(g.futureOps[bi], Op{K: "delegate", Who: who, Val: va, Denom: d1, Amt: amt()}, Op{K: "delegate", Who: who, Val: va, Denom: d2, Amt: amt()}, Op{K: "delegate", Who: who, Val: vb, Denom: d1, Amt: amt()})
		g.futureOps[bi+1] = append(g.futureOps[bi+1], Op{K: "undelegate", Who: who, Val: va, Denom: d1, Amt: exit()}, Op{K: "undelegate", Who: who, Val: va, Denom: d2, Amt: exit()}, Op{K: "undelegate", Who: who, Val: vb, Denom: d1, Amt: exit()})
		if r.Chance(0.5) {
			g.futureOps[bi+1] = append(g.futureOps[bi+1], Op{K: "undelegate", Who: who, Val: va, Denom: d1, Amt: &Amt{Pct: 30}})
		}
		g.futureSlash[slashAt] = append(g.futureSlash[slashAt], Op{K: "slash_direct", Val: []int{va, vb}[r.Intn(2)], Fraction: frac, Age: 1})
	case 1: // fan-in: two sources into one destination in one block, then one source is slashed
		g.futureOps[bi] = append(g.futureOps[bi], Op{K: "delegate", Who: who, Val: va, Denom: d1, Amt: amt()}, Op{K: "delegate", Who: who, Val: vb, Denom: d1, Amt: amt()})
		g.futureOps[bi+1] = append(g.futureOps[bi+1], Op{K: "redelegate", Who: who, Val: va, Dst: vc, Denom: d1, Amt: exit()}, Op{K: "redelegate", Who: who, Val: vb, Dst: vc, Denom: d1, Amt: exit()})
		g.futureSlash[slashAt] = append(g.futureSlash[slashAt], Op{K: "slash_direct", Val: []int{va, vb}[r.Intn(2)], Fraction: frac, Age: 1})
	case 2: // destination emptied (or partly emptied) before the source is slashed
		g.futureOps[bi] = append(g.futureOps[bi], Op{K: "delegate", Who: who, Val: va, Denom: d1, Amt: amt()})
		g.futureOps[bi+1] = append(g.futureOps[bi+1], Op{K: "redelegate", Who: who, Val: va, Dst: vb, Denom: d1, Amt: exit()})
		g.futureOps[bi+2] = append(g.futureOps[bi+2], Op{K: "undelegate", Who: who, Val: vb, Denom: d1, Amt: exit()})
		g.futureSlash[slashAt+1] = append(g.futureSlash[slashAt+1], Op{K: "slash_direct", Val: va, Fraction: frac, Age: 1})
	default: // repeated exits from the same validator in one block plus a second delegator in the same bucket
		who2 := (who + 1) % g.cfg.Delegators
		g.futureOps[bi] = append(g.futureOps[bi], Op{K: "delegate", Who: who, Val: va, Denom: d1, Amt: amt()}, Op{K: "delegate", Who: who2, Val: va, Denom: d1, Amt: amt()})
		g.futureOps[bi+1] = append(g.futureOps[bi+1], Op{K: "undelegate", Who: who, Val: va, Denom: d1, Amt: &Amt{Pct: 20}}, Op{K: "undelegate", Who: who, Val: va, Denom: d1, Amt: &Amt{Pct: 30}}, Op{K: "undelegate", Who: who2, Val: va, Denom: d1, Amt: exit()})
		g.futureSlash[slashAt] = append(g.futureSlash[slashAt], Op{K: "slash_direct", Val: va, Fraction: frac, Age: 1})
	}
	g.addPos(who, va, d1)
	g.addPos(who, vb, d1)
	g.lastWho = who
}
