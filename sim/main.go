package main

import (
	"bufio"
	"encoding/json"
	"flag"
	"fmt"
	"os"
	"os/exec"
	"path/filepath"
	"runtime"
	"sort"
	"strconv"
	"strings"
	"sync"
	"time"
)

func envStr(name, def string) string {
	if v := os.Getenv(name); v != "" {
		return v
	}
	return def
}

func envInt(name string, def int64) int64 {
	if v := os.Getenv(name); v != "" {
		if n, err := strconv.ParseInt(v, 10, 64); err == nil {
			return n
		}
	}
	return def
}

func main() {
	if len(os.Args) < 2 {
		fmt.Fprintln(os.Stderr, "usage: verif-sim check|worker|replay|selftest|gen ...")
		os.Exit(2)
	}
	switch os.Args[1] {
	case "check":
		os.Exit(cmdCheck(os.Args[2:]))
	case "worker":
		os.Exit(cmdWorker(os.Args[2:]))
	case "replay":
		os.Exit(cmdReplay(os.Args[2:]))
	case "selftest":
		os.Exit(cmdSelftest(os.Args[2:]))
	case "gen":
		os.Exit(cmdGen(os.Args[2:]))
	case "digest":
		os.Exit(cmdDigest(os.Args[2:]))
	case "apphash":
		os.Exit(cmdApphash(os.Args[2:]))
	case "minimise":
		os.Exit(cmdMinimise(os.Args[2:]))
	case "abcidiff":
		os.Exit(cmdABCIDiff(os.Args[2:]))
	default:
		fmt.Fprintln(os.Stderr, "unknown command", os.Args[1])
		os.Exit(2)
	}
}

// ---------------------------------------------------------------------------
// one run
// ---------------------------------------------------------------------------

type RunRecord struct {
	Run     uint64        `json:"run"`
	Stats   *RunStats     `json:"stats"`
	Viol    *ViolationRec `json:"viol,omitempty"`
	Replay  string        `json:"replay,omitempty"`
	WallMs  int64         `json:"wall_ms"`
	NBlocks int           `json:"nblocks"`
}

// executeSchedule runs one schedule from genesis with the monitors of prop.
func executeSchedule(s *Schedule, prop string, kf *KnownFindings, verbose bool) (*Runner, error) {
	if prop == "C18" {
		return executeC18(s, kf, verbose)
	}
	if prop == "C19" {
		return executeC19(s, kf, verbose)
	}
	w, err := NewWorld(s.Config)
	if err != nil {
		return nil, err
	}
	defer w.Close()
	r := NewRunner(w, s, prop, monitorsFor(prop, s), kf)
	r.Verbose = verbose
	r.Run()
	return r, nil
}

func monitorsFor(prop string, s *Schedule) []Monitor {
	switch prop {
	case "C01":
		return []Monitor{newMonC01()}
	case "C17":
		return []Monitor{newMonC17()}
	}
	if f, ok := monitorRegistry[prop]; ok {
		return f(s)
	}
	return nil
}

var monitorRegistry = map[string]func(s *Schedule) []Monitor{}

var watchdogLimit = 240 * time.Second

func init() {
	if v := envInt("VERIF_WATCHDOG_S", 0); v > 0 {
		watchdogLimit = time.Duration(v) * time.Second
	}
}

// ---------------------------------------------------------------------------
// worker
// ---------------------------------------------------------------------------

func cmdWorker(args []string) int {
	fs := flag.NewFlagSet("worker", flag.ExitOnError)
	prop := fs.String("prop", "", "property id")
	seed := fs.Uint64("seed", 1, "VERIF_SEED")
	wi := fs.Int("w", 0, "worker index")
	wn := fs.Int("W", 1, "number of workers")
	budget := fs.Int("budget", 30, "wall-clock budget in seconds")
	maxRuns := fs.Int64("runs", 1<<40, "total run budget (over all workers)")
	out := fs.String("out", "", "output directory")
	verif := fs.String("verif", "/verif", "verif dir")
	tier := fs.String("tier", "quick", "quick|thorough")
	from := fs.Int64("from", -1, "first run index (a restart after a run that was abandoned by the watchdog)")
	_ = fs.Parse(args)
	tierName = *tier
	runtime.GOMAXPROCS(2)
	kf := loadKnown(*verif)
	prof := profileFor(*prop)
	mode := os.O_CREATE | os.O_WRONLY | os.O_TRUNC
	if *from >= 0 {
		mode = os.O_CREATE | os.O_WRONLY | os.O_APPEND
	} else {
		*from = int64(*wi)
	}
	f, err := os.OpenFile(filepath.Join(*out, fmt.Sprintf("w%d.jsonl", *wi)), mode, 0o644)
	if err != nil {
		fmt.Fprintln(os.Stderr, err)
		return 2
	}
	defer f.Close()
	bw := bufio.NewWriter(f)
	defer bw.Flush()
	enc := json.NewEncoder(bw)
	start := time.Now()
	deadline := start.Add(time.Duration(*budget) * time.Second)
	nviol := 0
	var bestProbes int = -1
	for run := uint64(*from); int64(run) < *maxRuns; run += uint64(*wn) {
		if time.Now().After(deadline) {
			break
		}
		s := GenSchedule(*prop, *seed, run, prof)
		t0 := time.Now()
		// watchdog: a run that takes longer than four minutes (a hang, or a machine so loaded that nothing can be
		// said) is abandoned: its schedule is kept, the worker exits with code 3 and the coordinator restarts it at the
		// next run index. Never a violation.
		done := make(chan struct{})
		go func(run uint64) {
			select {
			case <-done:
			case <-time.After(watchdogLimit):
				fmt.Fprintf(os.Stderr, "WATCHDOG: run %d of %s abandoned after %s\n", run, *prop, watchdogLimit)
				_ = saveJSON(filepath.Join(*out, fmt.Sprintf("watchdog-%d-%d.json", *seed, run)), &ReplayFile{Schedule: *s, Note: "watchdog"})
				_ = bw.Flush()
				_ = os.WriteFile(filepath.Join(*out, fmt.Sprintf("resume-w%d", *wi)), []byte(fmt.Sprint(run+uint64(*wn))), 0o644)
				os.Exit(3)
			}
		}(run)
		r, err := executeSchedule(s, *prop, kf, false)
		close(done)
		if err != nil {
			fmt.Fprintf(os.Stderr, "run %d: world construction failed: %v\n", run, err)
			return 2
		}
		if *prop == "C19" && run%8 == 0 && len(r.Viols) == 0 {
			// (b) the same schedule in fresh processes at GOMAXPROCS 1 and 16: identical app hash per block
			self, _ := os.Executable()
			msg, err := crossProcess(s, *out, self)
			if err != nil {
				fmt.Fprintln(os.Stderr, err)
				return 2
			}
			r.Stats.Clauses["C19.b"]++
			r.Stats.Probes["c19_cross_process_replays"]++
			if msg != "" {
				r.Viols = append(r.Viols, ViolationRec{Property: "C19", Clause: "C19.b", Block: 0, Step: "cross-process", Detail: msg, Class: "app-hash-differs-across-processes"})
			}
		}
		if *prop == "C19" && run%4 == 1 && len(r.Viols) == 0 {
			// (d) fidelity of the stubbed runTx: a user-message-only schedule on both executors
			ds := GenSchedule("C19", *seed+1_000_003, run, abciProfile())
			nb, msg, err := runABCIDifferential(ds)
			if err != nil {
				fmt.Fprintln(os.Stderr, err)
				return 2
			}
			r.Stats.Clauses["C19.d"] += nb
			r.Stats.Probes["c19_abci_differential_blocks"] += nb
			if msg != "" {
				path := filepath.Join(*out, fmt.Sprintf("abci-diff-%d-%d.json", *seed, run))
				_ = saveJSON(path, &ReplayFile{Schedule: *ds, Note: "abci differential: " + msg})
				r.Viols = append(r.Viols, ViolationRec{Property: "C19", Clause: "C19.d", Block: 0, Step: "abci-differential", Detail: msg + " (schedule: " + path + "; replay with: verif-sim abcidiff <file>)", Class: "stub-and-abci-executors-disagree"})
			}
		}
		rec := RunRecord{Run: run, Stats: r.Stats, WallMs: time.Since(t0).Milliseconds(), NBlocks: len(s.Blocks)}
		if len(r.Viols) > 0 {
			v := r.Viols[0]
			rec.Viol = &v
			path := filepath.Join(*out, fmt.Sprintf("violation-%d-%d.json", *seed, run))
			_ = saveJSON(path, &ReplayFile{Schedule: *s, Violation: &v})
			rec.Replay = path
			nviol++
		}
		if r.Stats.Foreign != "" {
			path := filepath.Join(*out, fmt.Sprintf("foreign-%d-%d.json", *seed, run))
			_ = saveJSON(path, &ReplayFile{Schedule: *s, Note: r.Stats.Foreign})
			rec.Replay = path
		}
		// sample schedules: the first run of worker 0, and the run reaching the most distinct probes
		if run == 0 {
			_ = saveJSON(filepath.Join(*out, "sample-first.json"), s)
		}
		if np := len(r.Stats.Probes); np > bestProbes && r.Stats.Nontrivial && len(s.Blocks) <= 40 {
			bestProbes = np
			_ = saveJSON(filepath.Join(*out, fmt.Sprintf("sample-probes-w%d.json", *wi)), struct {
				Probes   int       `json:"distinct_probes"`
				Schedule *Schedule `json:"schedule"`
			}{np, s})
		}
		_ = enc.Encode(&rec)
		if nviol >= 3 {
			break
		}
	}
	return 0
}

// ---------------------------------------------------------------------------
// replay
// ---------------------------------------------------------------------------

func cmdReplay(args []string) int {
	fs := flag.NewFlagSet("replay", flag.ExitOnError)
	verbose := fs.Bool("v", false, "print the step trace")
	dump := fs.Bool("dump", false, "print a state summary after every step (implies -v)")
	prop := fs.String("prop", "", "override property")
	verif := fs.String("verif", "/verif", "verif dir")
	noKnown := fs.Bool("no-known", false, "ignore known_findings.json")
	_ = fs.Parse(args)
	if fs.NArg() < 1 {
		fmt.Fprintln(os.Stderr, "usage: replay [-v] <file>")
		return 2
	}
	rf, err := loadReplay(fs.Arg(0))
	if err != nil {
		fmt.Fprintln(os.Stderr, err)
		return 2
	}
	p := rf.Schedule.Property
	if *prop != "" {
		p = *prop
	}
	kf := loadKnown(*verif)
	if *noKnown {
		kf = &KnownFindings{}
	}
	dumpSteps = *dump
	r, err := executeSchedule(&rf.Schedule, p, kf, *verbose || *dump)
	if err != nil {
		fmt.Fprintln(os.Stderr, err)
		return 2
	}
	for _, l := range r.Trace {
		fmt.Println(l)
	}
	if r.Stats.Foreign != "" {
		fmt.Println("FOREIGN-HALT:", r.Stats.Foreign)
	}
	for _, k := range r.Known {
		fmt.Printf("known-finding hit: %s [%s] at %s: %s\n", k.Clause, k.Class, k.Step, k.Detail)
	}
	if len(r.Viols) == 0 {
		fmt.Printf("replay: no violation of %s (%d blocks, %d steps)\n", p, r.Stats.Blocks, r.Stats.Steps)
		return 0
	}
	v := r.Viols[0]
	fmt.Printf("replay: %s violated: clause=%s class=%s at block %d step %s\n  %s\n", v.Property, v.Clause, v.Class, v.Block, v.Step, v.Detail)
	if rf.Violation != nil {
		if rf.Violation.Clause == v.Clause && rf.Violation.Class == v.Class && rf.Violation.Step == v.Step && rf.Violation.Detail == v.Detail {
			fmt.Println("replay: identical to the recorded violation")
		} else {
			fmt.Printf("replay: DIFFERS from recorded violation (%s %s %s)\n", rf.Violation.Clause, rf.Violation.Class, rf.Violation.Step)
		}
	}
	fmt.Printf("VIOLATION property=%s replay=%s\n", v.Property, fs.Arg(0))
	return 1
}

func cmdGen(args []string) int {
	fs := flag.NewFlagSet("gen", flag.ExitOnError)
	prop := fs.String("prop", "C01", "")
	seed := fs.Uint64("seed", 1, "")
	run := fs.Uint64("run", 0, "")
	_ = fs.Parse(args)
	s := GenSchedule(*prop, *seed, *run, profileFor(*prop))
	b, _ := json.MarshalIndent(&ReplayFile{Schedule: *s}, "", " ")
	fmt.Println(string(b))
	return 0
}

// ---------------------------------------------------------------------------
// check (coordinator)
// ---------------------------------------------------------------------------

type tierCfg struct {
	budgetS int64
	runs    int64
}

func tierFor(prop, tier string) tierCfg {
	t := tierCfg{budgetS: 40, runs: 1 << 40}
	if tier == "thorough" {
		t.budgetS = 1200
	}
	t.budgetS = envInt("VERIF_BUDGET_S", t.budgetS)
	t.runs = envInt("VERIF_RUNS", t.runs)
	return t
}

func cmdCheck(args []string) int {
	fs := flag.NewFlagSet("check", flag.ExitOnError)
	prop := fs.String("prop", "", "property id")
	tier := fs.String("tier", "quick", "quick|thorough")
	verif := fs.String("verif", "/verif", "verif dir")
	_ = fs.Parse(args)
	if t := os.Getenv("VERIF_TIER"); t == "quick" || t == "thorough" {
		*tier = t
	}
	seed := uint64(envInt("VERIF_SEED", 1))
	workers := int(envInt("VERIF_WORKERS", int64(runtime.NumCPU())))
	if workers < 1 {
		workers = 1
	}
	tierName = *tier
	tc := tierFor(*prop, *tier)
	start := time.Now()
	outDir := filepath.Join(*verif, "out", *prop)
	_ = os.RemoveAll(outDir)
	if err := os.MkdirAll(outDir, 0o755); err != nil {
		fmt.Fprintln(os.Stderr, err)
		return 2
	}
	kf := loadKnown(*verif)
	self, _ := os.Executable()

	exit := 0
	var violLines []string
	var notes []string

	// ---- 1. witness replays of known findings of this property
	witness := map[string]string{}
	for _, e := range kf.ForProperty(*prop) {
		if e.Witness == "" {
			continue
		}
		path := filepath.Join(*verif, e.Witness)
		rf, err := loadReplay(path)
		if err != nil {
			fmt.Fprintf(os.Stderr, "cannot load witness %s: %v\n", path, err)
			return 2
		}
		r, err := executeSchedule(&rf.Schedule, *prop, kf, false)
		if err != nil {
			fmt.Fprintln(os.Stderr, err)
			return 2
		}
		// open entry: still violating iff the run hit that very finding; fixed entry: regressed iff any
		// violation of its clause remains that no open finding excuses
		still := r.Stats.KnownHits[e.ID] > 0
		if e.Status == "fixed" {
			still = false
			for _, v := range r.Viols {
				if v.Clause == e.Clause {
					still = true
				}
			}
		}
		switch {
		case e.Status == "open" && still:
			fmt.Printf("KNOWN-FINDING: property=%s %s: %s\n", *prop, e.ID, e.What)
			witness[e.ID] = "still-violating"
		case e.Status == "open":
			witness[e.ID] = "witness passes (finding may be marked fixed)"
		case e.Status == "fixed" && still:
			witness[e.ID] = "REGRESSED"
			violLines = append(violLines, fmt.Sprintf("VIOLATION property=%s replay=%s", *prop, path))
			exit = 1
		default:
			witness[e.ID] = "fixed: witness passes"
		}
	}

	// ---- 1b. C19 static tripwire (informational; the dynamic sibling/process comparison decides)
	var tripReport map[string]any
	if *prop == "C19" {
		var flagged []string
		tripReport, flagged = runTripwire(envStr("VERIF_REPO", "/repo"))
		if len(flagged) > 0 {
			path := filepath.Join(outDir, "static-tripwire.json")
			_ = saveJSON(path, tripReport)
			// Informational only: a range over a map whose result is sorted or summed, or time.Now feeding
			// telemetry, is deterministic as far as C19 is concerned; a syntactic scan cannot tell. Only the
			// dynamic comparison (siblings, processes, crash re-execution) decides the property.
			for _, f := range flagged {
				fmt.Println("note: C19.static [static-tripwire] construct worth a look (does not decide the property):", f)
			}
		}
	}

	// ---- 2. seeded search
	infra := false
	abandoned := 0
	var mu sync.Mutex
	var wg sync.WaitGroup
	searchStart := time.Now()
	for i := 0; i < workers; i++ {
		wg.Add(1)
		go func(i int) {
			defer wg.Done()
			from := int64(-1)
			for restarts := 0; ; restarts++ {
				left := int(tc.budgetS) - int(time.Since(searchStart).Seconds())
				if restarts > 0 && left < 1 {
					return
				}
				if left < 1 {
					left = 1
				}
				args := []string{"worker", "-prop", *prop, "-tier", *tier, "-seed", fmt.Sprint(seed), "-w", fmt.Sprint(i), "-W", fmt.Sprint(workers),
					"-budget", fmt.Sprint(left), "-runs", fmt.Sprint(tc.runs), "-out", outDir, "-verif", *verif}
				if from >= 0 {
					args = append(args, "-from", fmt.Sprint(from))
				}
				c := exec.Command(self, args...)
				c.Stderr = os.Stderr
				err := c.Run()
				if err == nil {
					return
				}
				if ee, ok := err.(*exec.ExitError); ok && ee.ExitCode() == 3 && restarts < 20 {
					// a run was abandoned by the watchdog: continue behind it
					b, rerr := os.ReadFile(filepath.Join(outDir, fmt.Sprintf("resume-w%d", i)))
					if n, perr := strconv.ParseInt(strings.TrimSpace(string(b)), 10, 64); rerr == nil && perr == nil {
						mu.Lock()
						abandoned++
						mu.Unlock()
						from = n
						continue
					}
				}
				mu.Lock()
				infra = true
				mu.Unlock()
				fmt.Fprintf(os.Stderr, "worker failed: %v\n", err)
				return
			}
		}(i)
	}
	wg.Wait()
	if abandoned > 0 {
		notes = append(notes, fmt.Sprintf("%d run(s) abandoned by the watchdog after %s (schedules kept as watchdog-*.json); they decide nothing", abandoned, watchdogLimit))
	}

	// ---- 3. aggregate
	agg := newAgg()
	agg.abandoned = abandoned
	for i := 0; i < workers; i++ {
		agg.readFile(filepath.Join(outDir, fmt.Sprintf("w%d.jsonl", i)))
	}
	searchWall := time.Since(start).Seconds()

	// ---- 4. violations: minimise, verify in a fresh process, report
	classes := map[string]RunRecord{}
	var classOrder []string
	for _, rec := range agg.viols {
		c := rec.Viol.Clause + "|" + rec.Viol.Class
		if _, ok := classes[c]; !ok {
			classes[c] = rec
			classOrder = append(classOrder, c)
		}
	}
	sort.Strings(classOrder)
	for i, c := range classOrder {
		if i >= 5 {
			break
		}
		rec := classes[c]
		if rec.Viol.Clause == "C19.d" {
			// the differential run has its own schedule and its own replay command
			dpath := strings.Replace(rec.Replay, "violation-", "abci-diff-", 1)
			outb, _ := exec.Command(self, "abcidiff", dpath).CombinedOutput()
			if strings.Contains(string(outb), "DISAGREEMENT") {
				fmt.Printf("violation: %s [%s] %s\n", rec.Viol.Clause, rec.Viol.Class, rec.Viol.Detail)
				violLines = append(violLines, fmt.Sprintf("VIOLATION property=%s replay=%s", *prop, dpath))
				exit = 1
			} else {
				notes = append(notes, fmt.Sprintf("violation %s did not reproduce in a fresh process (%s)", c, dpath))
				infra = true
			}
			continue
		}
		minPath := strings.Replace(rec.Replay, "violation-", "min-", 1)
		path := rec.Replay
		if rf, err := loadReplay(rec.Replay); err == nil {
			ms, mv := Minimise(&rf.Schedule, rec.Viol, kf, 60*time.Second)
			if ms != nil {
				_ = saveJSON(minPath, &ReplayFile{Schedule: *ms, Violation: mv})
				path = minPath
			}
		}
		// fresh-process confirmation
		outb, _ := exec.Command(self, "replay", "-verif", *verif, path).CombinedOutput()
		if !strings.Contains(string(outb), "VIOLATION property=") {
			// fall back to the unminimised file
			outb2, _ := exec.Command(self, "replay", "-verif", *verif, rec.Replay).CombinedOutput()
			if strings.Contains(string(outb2), "VIOLATION property=") {
				path = rec.Replay
			} else {
				notes = append(notes, fmt.Sprintf("violation %s did not reproduce in a fresh process (%s)", c, rec.Replay))
				infra = true
				continue
			}
		}
		fmt.Printf("violation: %s [%s] %s\n", rec.Viol.Clause, rec.Viol.Class, rec.Viol.Detail)
		violLines = append(violLines, fmt.Sprintf("VIOLATION property=%s replay=%s", *prop, path))
		exit = 1
	}

	// ---- 5. evidence
	wall := time.Since(start).Seconds()
	ev := agg.evidence(*prop, *tier, seed, wall, searchWall, workers, outDir, witness, len(classOrder))
	if tripReport != nil {
		ev["coverage"].(map[string]any)["static_tripwire"] = tripReport
	}
	evPath := filepath.Join(*verif, "evidence", *prop+".json")
	_ = os.MkdirAll(filepath.Dir(evPath), 0o755)
	if err := saveJSON(evPath, ev); err != nil {
		fmt.Fprintln(os.Stderr, "cannot write evidence:", err)
		infra = true
	}
	for _, l := range violLines {
		fmt.Println(l)
	}
	for _, n := range notes {
		fmt.Println("NOTE:", n)
	}
	if agg.foreign > 0 {
		// a begin/end-of-block failure whose stack has no frame of the module (e.g. x/staking refusing a voting
		// power that does not fit an int64): the run ends there, is counted in the evidence and kept as a replay
		// file, and decides nothing about the property
		fmt.Printf("NOTE: %d run(s) stopped by a failure outside x/alliance (first: %s)\n", agg.foreign, agg.firstForeign)
	}
	fmt.Printf("%s %s: %d runs, %d non-trivial (%d distinct), %d steps, %.0f s simulated, %d violation class(es), %.1f s wall\n",
		*prop, *tier, agg.runs, agg.nontrivial, len(agg.sigs), agg.steps, agg.simS, len(classOrder), wall)
	if exit == 1 {
		return 1
	}
	if infra {
		return 2
	}
	if agg.runs == 0 {
		fmt.Fprintln(os.Stderr, "no runs executed")
		return 2
	}
	return 0
}

// ---------------------------------------------------------------------------
// aggregation + evidence
// ---------------------------------------------------------------------------

type agg struct {
	runs, nontrivial int
	steps, blocks    int
	simS             float64
	ops, faults      map[string]int
	probes, clauses  map[string]int
	known            map[string]int
	other            map[string]int
	sigs             map[string]bool
	viols            []RunRecord
	halted           int
	foreign          int
	abandoned        int
	firstForeign     string
	opsOK, opsFailed int
	wallMs           int64
}

func newAgg() *agg {
	return &agg{ops: map[string]int{}, faults: map[string]int{}, probes: map[string]int{}, clauses: map[string]int{}, known: map[string]int{}, other: map[string]int{}, sigs: map[string]bool{}}
}

func addMap(dst, src map[string]int) {
	for k, v := range src {
		dst[k] += v
	}
}

func (a *agg) readFile(path string) {
	f, err := os.Open(path)
	if err != nil {
		return
	}
	defer f.Close()
	sc := bufio.NewScanner(f)
	sc.Buffer(make([]byte, 1<<20), 1<<26)
	for sc.Scan() {
		var rec RunRecord
		if err := json.Unmarshal(sc.Bytes(), &rec); err != nil || rec.Stats == nil {
			continue
		}
		a.runs++
		st := rec.Stats
		a.steps += st.Steps
		a.blocks += st.Blocks
		a.simS += float64(st.SimTimeNs) / 1e9
		a.opsOK += st.OpsOK
		a.opsFailed += st.OpsFailed
		a.wallMs += rec.WallMs
		addMap(a.ops, st.OpsByKind)
		addMap(a.faults, st.Faults)
		addMap(a.probes, st.Probes)
		addMap(a.clauses, st.Clauses)
		addMap(a.known, st.KnownHits)
		addMap(a.other, st.OtherProps)
		if st.Nontrivial {
			a.nontrivial++
			a.sigs[st.Sig] = true
		}
		if st.Halt != "" {
			a.halted++
		}
		if st.Foreign != "" {
			a.foreign++
			if a.firstForeign == "" {
				a.firstForeign = st.Foreign + " replay=" + rec.Replay
			}
		}
		if rec.Viol != nil {
			a.viols = append(a.viols, rec)
		}
	}
}

func (a *agg) evidence(prop, tier string, seed uint64, wall, searchWall float64, workers int, outDir string, witness map[string]string, nclasses int) map[string]any {
	var samples []any
	if b, err := os.ReadFile(filepath.Join(outDir, "sample-first.json")); err == nil {
		var v any
		if json.Unmarshal(b, &v) == nil {
			samples = append(samples, map[string]any{"which": "first run", "schedule": v})
		}
	}
	// the run that reached the most distinct probes
	best := -1
	var bestV any
	matches, _ := filepath.Glob(filepath.Join(outDir, "sample-probes-w*.json"))
	sort.Strings(matches)
	for _, m := range matches {
		b, err := os.ReadFile(m)
		if err != nil {
			continue
		}
		var v struct {
			Probes   int `json:"distinct_probes"`
			Schedule any `json:"schedule"`
		}
		if json.Unmarshal(b, &v) == nil && v.Probes > best {
			best = v.Probes
			bestV = v.Schedule
		}
	}
	if bestV != nil {
		samples = append(samples, map[string]any{"which": fmt.Sprintf("run reaching most distinct probes (%d)", best), "schedule": bestV})
	}
	if len(samples) == 0 {
		samples = append(samples, "no sample recorded")
	}
	var gaps []string
	for _, p := range expectedProbes[prop] {
		if a.probes[p] == 0 {
			gaps = append(gaps, p)
		}
	}
	rph := 0.0
	if searchWall > 0 {
		rph = float64(a.runs) / searchWall * 3600
	}
	cov := map[string]any{
		"evaluations":         a.runs,
		"distinct_nontrivial": len(a.sigs),
		"rule": "one evaluation = one seeded run (configuration + schedule drawn from splitmix64(VERIF_SEED, property, run index), executed from genesis on the real app with the property's monitor after every step). " +
			"A run is non-trivial when " + nontrivialRule[prop] + ". distinct = distinct run signatures among non-trivial runs; signature = hash of the sequence of (step kind, outcome class, abstract-state class) where the abstract-state class buckets #positions, #unbonding buckets, #buckets with >1 entry, #redelegations, #jailed, #non-bonded validators and the rebalance flag.",
		"samples":                     samples,
		"nontrivial_runs":             a.nontrivial,
		"monitored_steps":             a.steps,
		"blocks":                      a.blocks,
		"simulated_time_s":            a.simS,
		"runs_per_hour":               rph,
		"workers":                     workers,
		"ops_by_kind":                 a.ops,
		"ops_ok":                      a.opsOK,
		"ops_failed":                  a.opsFailed,
		"faults_fired":                a.faults,
		"probes":                      a.probes,
		"coverage_gaps":               gaps,
		"clause_evaluations":          a.clauses,
		"known_finding_hits":          a.known,
		"witness_replays":             witness,
		"halted_runs":                 a.halted,
		"other_property_observations": a.other,
		"foreign_halts":               a.foreign,
		"watchdog_abandoned_runs":     a.abandoned,
		"violation_classes":           nclasses,
		"profile":                     describeProfile(profileFor(prop)),
		"components": map[string]any{
			"real": []string{"x/alliance keeper, msg server, query server, hooks, EndBlocker, genesis, bindings, custom/bank (from /repo working tree)",
				"cosmos-sdk v0.50 x/bank, x/staking, x/distribution, x/slashing, x/evidence, x/mint, x/auth, module manager Begin/EndBlock order of app.go",
				"store: rootmulti + IAVL + cachekv/gaskv on cosmos-db MemDB", "message routing: app.MsgServiceRouter().Handler"},
			"stub": []string{"baseapp.runTx (ante handler, signatures, fees): each message runs on a CacheContext, committed on success, discarded on error/panic/out-of-gas",
				"CometBFT consensus: the scheduler fabricates header time, votes and misbehaviour evidence",
				"governance voting: authority-gated messages are delivered with the gov module address (or a wrong one)"},
		},
	}
	return map[string]any{
		"property_id": prop,
		"tier":        tier,
		"seed":        int64(seed),
		"level":       "exploration",
		"coverage":    cov,
		"assumptions": []string{
			"sampling, not proof: a clean batch is evidence over the explored schedules only",
			"transaction execution is stubbed as described under components.stub; fees are zero",
			"validator votes are taken from the validator set of the previous block (one block earlier than CometBFT would)",
			"world sizes are small (<=8 validators, <=6 delegators, <=4 assets, <=70 blocks per run)",
		},
		"wall_s":     wall,
		"violations": nclasses,
	}
}

var nontrivialRule = map[string]string{
	"C01": "at some step an asset had both a positive staked total and pending unbondings (so all three terms of the custody equation were live)",
	"C17": "an end-of-block ran in a state with a tiny claim interval, a dust-only asset, a jailed validator or maturing unbondings",
}

var expectedProbes = map[string][]string{
	"C01": {"c01_staked_and_pending", "c01_donation"},
	"C17": {"c17_tiny_claim_interval", "c17_dust_asset", "c17_jailed_validator", "c17_unbonding_matured"},
}

// ---------------------------------------------------------------------------
// determinism self-test: same seed, separate processes, different GOMAXPROCS
// ---------------------------------------------------------------------------

func cmdDigest(args []string) int {
	fs := flag.NewFlagSet("digest", flag.ExitOnError)
	prop := fs.String("prop", "C01", "")
	seed := fs.Uint64("seed", 1, "")
	from := fs.Uint64("from", 0, "")
	n := fs.Uint64("n", 10, "")
	procs := fs.Int("procs", 0, "")
	_ = fs.Parse(args)
	if *procs > 0 {
		runtime.GOMAXPROCS(*procs)
	}
	for run := *from; run < *from+*n; run++ {
		s := GenSchedule(*prop, *seed, run, profileFor(*prop))
		w, err := NewWorld(s.Config)
		if err != nil {
			fmt.Println("ERR", err)
			return 2
		}
		r := NewRunner(w, s, *prop, []Monitor{&monDigest{}}, &KnownFindings{})
		r.Run()
		fmt.Printf("run=%d sig=%s digest=%s steps=%d halt=%q foreign=%q\n", run, r.Stats.Sig, r.Mons[0].(*monDigest).sum(), r.Stats.Steps, r.Stats.Halt, r.Stats.Foreign)
		w.Close()
	}
	return 0
}

type monDigest struct{ parts []string }

func (m *monDigest) Name() string { return "digest" }
func (m *monDigest) OnStep(r *Runner, st *Step) {
	res := ""
	if st.Res != nil {
		res = fmt.Sprintf("%v|%s", st.Res.OK, st.Res.Err)
	}
	m.parts = append(m.parts, st.Name+"|"+res+"|"+st.Post.Digest()+"|"+hashStrings([]string{fmt.Sprint(st.Post.Bal), st.Post.TotalBonded.String()}))
}
func (m *monDigest) Finish(r *Runner) {}
func (m *monDigest) sum() string      { return hashStrings(m.parts) }

func cmdSelftest(args []string) int {
	n := uint64(40)
	if len(args) > 0 {
		if v, err := strconv.ParseUint(args[0], 10, 64); err == nil {
			n = v
		}
	}
	self, _ := os.Executable()
	// the profile whose schedules are digested (default C01; VERIF_SELFTEST_PROP=C07|C18|C19|... for the
	// profiles with floods, exports and crashes)
	sprop := envStr("VERIF_SELFTEST_PROP", "C01")
	var outs []string
	for _, p := range []int{1, 4, 16, 1, 4, 16} {
		b, err := exec.Command(self, "digest", "-prop", sprop, "-seed", "7", "-n", fmt.Sprint(n), "-procs", fmt.Sprint(p)).CombinedOutput()
		if err != nil {
			fmt.Println("selftest: digest process failed:", err, string(b))
			return 2
		}
		outs = append(outs, string(b))
	}
	for i := 1; i < len(outs); i++ {
		if outs[i] != outs[0] {
			fmt.Println("selftest: NONDETERMINISM between process 0 and", i)
			a, b := strings.Split(outs[0], "\n"), strings.Split(outs[i], "\n")
			for j := range a {
				if j < len(b) && a[j] != b[j] {
					fmt.Println(" ", a[j], "\n ", b[j])
					break
				}
			}
			return 1
		}
	}
	fmt.Printf("selftest (%s profile): %d seeds x 6 processes (GOMAXPROCS 1/4/16 twice): identical step digests\n", sprop, n)
	return 0
}

func init() {
	monitorRegistry["C02"] = func(s *Schedule) []Monitor { return []Monitor{newMonC02()} }
	monitorRegistry["C03"] = func(s *Schedule) []Monitor { return []Monitor{newMonC03()} }
	nontrivialRule["C02"] = "at least one end-of-block paid out a matured unbonding entry, or one delegator had two entries in the same completion bucket"
	nontrivialRule["C03"] = "the run reached a state with >=3 positions, a slash with positions present, or an asset drained to zero"
	expectedProbes["C02"] = []string{"c02_payout", "c02_shared_bucket", "c02_paid_after_slash", "c02_paid_at_boundary", "c02_completion_equals_blocktime"}
	expectedProbes["C03"] = []string{"c03_drained_to_zero", "c03_after_slash"}
}

func init() {
	monitorRegistry["C06"] = func(s *Schedule) []Monitor { return []Monitor{newMonC06()} }
	monitorRegistry["C07"] = func(s *Schedule) []Monitor { return []Monitor{newMonC07()} }
	monitorRegistry["C08"] = func(s *Schedule) []Monitor { return []Monitor{newMonC08()} }
	nontrivialRule["C06"] = "a slash reached the hooks for a validator that carried alliance stake"
	nontrivialRule["C07"] = "a slash reduced at least one pending unbonding entry or hit at least one pending redelegation out of the slashed validator"
	nontrivialRule["C08"] = "at least one slash reached the hooks (the totality probe runs in every state of every run regardless)"
	expectedProbes["C06"] = []string{"c06_slash_with_stake", "c06_multi_asset_validator", "c06_full_slash", "c06_bystander_on_slashed_destination_validator", "c06_multi_slash_step"}
	expectedProbes["C07"] = []string{"c07_unbonding_slashed", "c07_redelegation_slashed", "c07_bucket_with_several_validators_or_denoms", "c07_slash_at_completion_instant", "c07_merged_sources", "c07_destination_emptied"}
	expectedProbes["C08"] = []string{"c08_slash_with_pending_redelegations", "c08_destination_emptied"}
}

func init() {
	monitorRegistry["C15"] = func(s *Schedule) []Monitor { return []Monitor{newMonC15()} }
	nontrivialRule["C15"] = "at least one redelegation succeeded, or an onward hop was attempted while an entry into its source was pending"
	expectedProbes["C15"] = []string{"c15_into_existing_position", "c15_into_new_position", "c15_full_balance", "c15_fan_in_same_block", "c15_repeated_same_block", "c15_hop_attempt_while_pending", "c15_matured", "c15_matured_at_boundary", "c15_completion_equals_blocktime"}
}

func init() {
	monitorRegistry["C20"] = func(s *Schedule) []Monitor { return []Monitor{newMonC20()} }
	nontrivialRule["C20"] = "queries were compared in a state with at least one delegation or with an unbonding bucket holding several entries"
	expectedProbes["C20"] = []string{"c20_bucket_with_several_entries"}
}

func init() {
	monitorRegistry["C04"] = func(s *Schedule) []Monitor { return []Monitor{newMonC04()} }
	monitorRegistry["C05"] = func(s *Schedule) []Monitor { return []Monitor{newMonC05()} }
	nontrivialRule["C04"] = "at least one successful delegate/undelegate/redelegate/claim was checked against every position of its asset"
	nontrivialRule["C05"] = "the probes ran in a state with at least one position, after a slash, or with a jailed validator"
	expectedProbes["C04"] = []string{"c04_extreme_share_token_ratio", "c04_dust_against_huge_total"}
	expectedProbes["C05"] = []string{"c05_after_slash", "c05_with_jailed_validator"}
}

func init() {
	monitorRegistry["C09"] = func(s *Schedule) []Monitor { return []Monitor{newMonC09()} }
	nontrivialRule["C09"] = "at least one end-of-block ran with a whole claim interval elapsed and an eligible asset (positive total, positive rate, rewards started)"
	expectedProbes["C09"] = []string{"c09_deduction", "c09_multi_interval", "c09_just_after_boundary", "c09_exactly_at_boundary", "c09_dust_not_reduced", "c09_asset_in_warmup_skipped", "c09_clock_stalled"}
}

func init() {
	monitorRegistry["C10"] = func(s *Schedule) []Monitor { return []Monitor{newMonC10()} }
	nontrivialRule["C10"] = "at least one block with a trigger (alliance stake, native stake, weight, slash, bond status) ended while some bonded validator had a non-zero target or alliance-minted stake"
	expectedProbes["C10"] = []string{"c10_trigger_native-stake", "c10_trigger_alliance-stake", "c10_trigger_slash", "c10_trigger_bond-status", "c10_trigger_reward-weight", "c10_trigger_warm-up-ended", "c10_full_native_undelegation", "c10_exchange_rate_not_one", "c10_non_bonded_with_module_stake"}
}

func init() {
	monitorRegistry["C11"] = func(s *Schedule) []Monitor { return []Monitor{newMonC11()} }
	nontrivialRule["C11"] = "at least one end-of-block ran (every step checks the net supply and the bank supply queries)"
	expectedProbes["C11"] = []string{"c11_rebalance_up", "c11_rebalance_down", "c11_real_slash", "c11_bond_denom_donation"}
}

func init() {
	monitorRegistry["C12"] = func(s *Schedule) []Monitor { return []Monitor{newMonC12()} }
	nontrivialRule["C12"] = "claim-for-everyone was executed in a state with at least one delegation"
	expectedProbes["C12"] = []string{"c12_settlement", "c12_slash_with_accrued_unclaimed_rewards", "c12_take_rate_between_accrual_and_claim"}
}

func init() {
	monitorRegistry["C13"] = func(s *Schedule) []Monitor { return []Monitor{newMonC13()} }
	nontrivialRule["C13"] = "at least one explicit or implicit claim was compared with the eager entitlement ledger"
	expectedProbes["C13"] = []string{"c13_settlement", "c13_two_assets_on_one_validator", "c13_new_position_delegate", "c13_grow_existing_delegate", "c13_new_position_redelegate", "c13_grow_existing_redelegate"}
}

func init() {
	monitorRegistry["C14"] = func(s *Schedule) []Monitor { return []Monitor{newMonC14()} }
	nontrivialRule["C14"] = "at least one end-of-block applied a due weight decay (range and initialisation clauses are evaluated after every step regardless)"
	expectedProbes["C14"] = []string{"c14_multi_interval_decay", "c14_decay_exactly_at_boundary", "c14_clamped_at_min", "c14_clamped_at_max", "c14_warm_up_crossed", "c14_weight_change_op", "c14_weight_change_end", "c14_pending_checked", "c14_decay_configured_by_update", "c14_half_configured_decay_completed", "c14_step_during_warm_up"}
}

func init() {
	monitorRegistry["C16"] = func(s *Schedule) []Monitor { return []Monitor{newMonC16()} }
	nontrivialRule["C16"] = "at least one governance message (create/update/delete/params, direct or legacy) was delivered"
	expectedProbes["C16"] = []string{"c16_wrong_authority_user", "c16_wrong_authority_module", "c16_wrong_authority_garbage", "c16_wrong_authority_empty", "c16_handler_panicked_on_input", "c16_aborted_by_gas", "c16_create_accepted", "c16_delete_accepted", "c16_update_of_staked_asset", "c16_update_mid_warm_up", "c16_params_accepted"}
}

func init() {
	nontrivialRule["C18"] = "at least one export -> wipe -> import was performed on the re-imported run and the continuation was compared step by step with the original run"
	expectedProbes["C18"] = []string{"c18_export_with_pending_unbondings", "c18_export_with_pending_redelegations", "c18_export_with_weight_snapshots", "c18_export_with_shared_bucket", "c18_export_with_merged_redelegation_record", "c18_export_with_rebalance_pending"}
}

func init() {
	nontrivialRule["C19"] = "every block of the run was executed three times (two sibling branches and the committed execution) and the transcripts compared"
	expectedProbes["C19"] = []string{"c19_validator_with_3_assets", "c19_validator_with_4_reward_indexes", "c19_cross_process_replays", "c19_abci_differential_blocks"}
}

// cmdMinimise: verif-sim minimise <in.json> <out.json> ; shrinks the first violation of the schedule's property.
func cmdMinimise(args []string) int {
	if len(args) < 2 {
		fmt.Fprintln(os.Stderr, "usage: minimise <in> <out>")
		return 2
	}
	rf, err := loadReplay(args[0])
	if err != nil {
		fmt.Fprintln(os.Stderr, err)
		return 2
	}
	kf := loadKnown(envStr("VERIF_DIR", "/verif"))
	r, err := executeSchedule(&rf.Schedule, rf.Schedule.Property, kf, false)
	if err != nil || len(r.Viols) == 0 {
		fmt.Println("no violation to minimise")
		return 0
	}
	v := r.Viols[0]
	ms, mv := Minimise(&rf.Schedule, &v, kf, 90*time.Second)
	if ms == nil {
		fmt.Println("minimisation failed")
		return 2
	}
	_ = saveJSON(args[1], &ReplayFile{Schedule: *ms, Violation: mv})
	fmt.Printf("minimised to %d blocks: %s [%s]\n", len(ms.Blocks), mv.Clause, mv.Class)
	return 0
}

// cmdABCIDiff: verif-sim abcidiff <schedule.json> | -seed S -run R  - runs the differential executor on one schedule.
func cmdABCIDiff(args []string) int {
	fs := flag.NewFlagSet("abcidiff", flag.ExitOnError)
	seed := fs.Uint64("seed", 1, "")
	run := fs.Uint64("run", 1, "")
	_ = fs.Parse(args)
	var s *Schedule
	if fs.NArg() > 0 {
		rf, err := loadReplay(fs.Arg(0))
		if err != nil {
			fmt.Fprintln(os.Stderr, err)
			return 2
		}
		s = &rf.Schedule
	} else {
		s = GenSchedule("C19", *seed+1_000_003, *run, abciProfile())
	}
	nb, msg, err := runABCIDifferential(s)
	if err != nil {
		fmt.Fprintln(os.Stderr, err)
		return 2
	}
	if msg != "" {
		fmt.Printf("abcidiff: DISAGREEMENT after %d blocks: %s\n", nb, msg)
		return 1
	}
	fmt.Printf("abcidiff: %d blocks identical on both executors\n", nb)
	return 0
}

func init() {
	// must run after the per-property init functions above (same file, declaration order)
	for _, p := range []string{"C01", "C03", "C05", "C10", "C20"} {
		expectedProbes[p] = append(expectedProbes[p], "lifecycle_alliance_delegation_on_validator_removed_by_staking")
	}
}
