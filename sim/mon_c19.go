package main

import (
	"crypto/sha256"
	"encoding/hex"
	"encoding/json"
	"flag"
	"fmt"
	"go/ast"
	"go/parser"
	"go/token"
	"os"
	"os/exec"
	"path/filepath"
	"runtime"
	"sort"
	"strings"

	abci "github.com/cometbft/cometbft/abci/types"
)

// C19 state transitions are deterministic.
//
// (a) every block is first executed on two sibling branches of the committed state (monitors off);
//     per-step results, event lists and the raw KV content of the alliance, bank, staking,
//     distribution, slashing and mint stores after the block must be byte-identical, and identical to
//     the real execution that follows. Go randomises map iteration per range statement, so any
//     dependence on map order shows up between siblings.
// (b) whole schedules are re-executed in fresh processes at GOMAXPROCS 1 and 16; the IAVL app hash
//     of every block must be identical.
// (c) crash before commit + re-execution reproduces the app hash (raised by the runner).
// (static) go/ast scan of the module's non-test sources: informational note lines only.

var c19Stores = []string{"alliance", "bank", "staking", "distribution", "slashing", "mint"}

type transcript struct {
	Steps  []string
	Stores map[string]string
}

type monTranscript struct {
	t *transcript
}

func (m *monTranscript) Name() string     { return "transcript" }
func (m *monTranscript) Finish(r *Runner) {}
func (m *monTranscript) OnStep(r *Runner, st *Step) {
	res := ""
	if st.Res != nil {
		res = fmt.Sprintf("%v|%s|%v", st.Res.OK, st.Res.Err, st.Res.OutOfGas)
	}
	m.t.Steps = append(m.t.Steps, st.Name+"|"+res+"|"+hashEvents(st.Events))
}

func hashEvents(evs []abci.Event) string {
	h := sha256.New()
	for _, e := range evs {
		h.Write([]byte(e.Type))
		h.Write([]byte{0})
		for _, a := range e.Attributes {
			h.Write([]byte(a.Key))
			h.Write([]byte{1})
			h.Write([]byte(a.Value))
			h.Write([]byte{2})
		}
	}
	return hex.EncodeToString(h.Sum(nil))[:16]
}

var allStoreNames = []string{"acc", "bank", "staking", "mint", "distribution", "slashing", "gov", "params", "upgrade", "evidence", "feegrant", "authz", "crisis", "consensus", "alliance", "ibc", "transfer", "capability", "group"}

// allStoreDigests: content digests of every KV store of the app (diagnostics for app-hash mismatches).
func (r *Runner) allStoreDigests() map[string]string {
	out := map[string]string{}
	ctx := r.W.CtxAt(r.W.Height, r.W.Now, nil)
	for _, name := range allStoreNames {
		if key := r.W.App.GetKey(name); key != nil {
			out[name] = hashKVs(dumpStore(ctx, key))
		}
	}
	return out
}

func (r *Runner) storeDigests() map[string]string {
	out := map[string]string{}
	for _, name := range c19Stores {
		key := r.W.App.GetKey(name)
		if key == nil {
			continue
		}
		out[name] = hashKVs(dumpStore(r.RootCtx, key))
	}
	return out
}

// runSibling executes block b on a discarded branch and returns its transcript.
func (r *Runner) runSibling(b *Block) *transcript {
	w := r.W
	saveH, saveNow := w.Height, w.Now
	saveTimes := map[int64]timeT{}
	for k, v := range r.BlockTimes {
		saveTimes[k] = v
	}
	mons, stats, sig, trace := r.Mons, r.Stats, r.sigParts, r.Trace
	t := &transcript{}
	r.Mons = []Monitor{&monTranscript{t: t}}
	r.Stats = newRunStats()
	r.branchMode = true
	r.runBlock(b, true)
	t.Stores = r.branchStores
	r.branchMode = false
	w.Height, w.Now = saveH, saveNow
	r.BlockTimes = saveTimes
	r.Mons, r.Stats, r.sigParts, r.Trace = mons, stats, sig, trace
	r.Halted = false
	return t
}

func diffTranscripts(a, b *transcript) string {
	n := len(a.Steps)
	if len(b.Steps) < n {
		n = len(b.Steps)
	}
	for i := 0; i < n; i++ {
		if a.Steps[i] != b.Steps[i] {
			return fmt.Sprintf("step %q vs %q", a.Steps[i], b.Steps[i])
		}
	}
	if len(a.Steps) != len(b.Steps) {
		return fmt.Sprintf("%d vs %d steps", len(a.Steps), len(b.Steps))
	}
	var names []string
	for k := range a.Stores {
		names = append(names, k)
	}
	sort.Strings(names)
	for _, k := range names {
		if a.Stores[k] != b.Stores[k] {
			return fmt.Sprintf("store %s: %s vs %s", k, a.Stores[k], b.Stores[k])
		}
	}
	return ""
}

// monC19 drives the sibling comparison from inside the run (it needs the runner's block loop).
type monC19 struct {
	real *transcript
}

func (m *monC19) Name() string     { return "C19" }
func (m *monC19) Finish(r *Runner) {}
func (m *monC19) OnStep(r *Runner, st *Step) {
	if m.real == nil {
		return
	}
	res := ""
	if st.Res != nil {
		res = fmt.Sprintf("%v|%s|%v", st.Res.OK, st.Res.Err, st.Res.OutOfGas)
	}
	m.real.Steps = append(m.real.Steps, st.Name+"|"+res+"|"+hashEvents(st.Events))
	// histories that make map-order dependence visible
	for _, v := range st.Post.ValOrder {
		if len(st.Post.ValInfos[v].ValidatorShares) >= 3 {
			r.Probe("c19_validator_with_3_assets")
		}
		if len(st.Post.ValInfos[v].GlobalRewardHistory) >= 4 {
			r.Probe("c19_validator_with_4_reward_indexes")
		}
	}
}

// executeC19 runs a schedule with sibling executions of every block.
func executeC19(s *Schedule, kf *KnownFindings, verbose bool) (*Runner, error) {
	w, err := NewWorld(s.Config)
	if err != nil {
		return nil, err
	}
	defer w.Close()
	mon := &monC19{}
	r := NewRunner(w, s, "C19", []Monitor{mon}, kf)
	r.Verbose = verbose
	r.siblings = func(b *Block) {
		t1 := r.runSibling(b)
		t2 := r.runSibling(b)
		r.Eval("C19.a")
		r.Nontrivial()
		if d := diffTranscripts(t1, t2); d != "" {
			r.Violate("C19.a", "siblings-differ", fmt.Sprintf("block %d executed twice on sibling branches of the same state differs: %s", r.BlockIdx, d))
			return
		}
		mon.real = &transcript{}
		r.expectSibling = t1
	}
	r.afterBlock = func(b *Block) {
		if r.expectSibling == nil || mon.real == nil || r.Halted {
			return
		}
		mon.real.Stores = r.storeDigestsAt()
		if d := diffTranscripts(r.expectSibling, mon.real); d != "" {
			r.Violate("C19.a", "real-execution-differs-from-sibling", fmt.Sprintf("block %d: committed execution differs from the branch execution: %s", r.BlockIdx, d))
		}
		r.expectSibling = nil
		mon.real = nil
	}
	r.Run()
	return r, nil
}

// ---------------------------------------------------------------------------
// (b) cross-process app hashes
// ---------------------------------------------------------------------------

func cmdApphash(args []string) int {
	fs := flag.NewFlagSet("apphash", flag.ExitOnError)
	procs := fs.Int("procs", 0, "")
	_ = fs.Parse(args)
	if *procs > 0 {
		runtime.GOMAXPROCS(*procs)
	}
	rf, err := loadReplay(fs.Arg(0))
	if err != nil {
		fmt.Println("ERR", err)
		return 2
	}
	w, err := NewWorld(rf.Schedule.Config)
	if err != nil {
		fmt.Println("ERR", err)
		return 2
	}
	defer w.Close()
	r := NewRunner(w, &rf.Schedule, "C19", nil, &KnownFindings{})
	r.recordHashes = true
	r.Run()
	fmt.Println(strings.Join(r.blockHashes, "\n"))
	fmt.Printf("halt=%q foreign=%q\n", r.Stats.Halt, r.Stats.Foreign)
	return 0
}

// crossProcess re-executes the schedule in fresh processes and compares per-block app hashes.
func crossProcess(s *Schedule, dir string, self string) (string, error) {
	path := filepath.Join(dir, fmt.Sprintf("xproc-%d-%d.json", s.Seed, s.Run))
	if err := saveJSON(path, &ReplayFile{Schedule: *s}); err != nil {
		return "", err
	}
	defer os.Remove(path)
	var outs []string
	for _, p := range []int{1, 16} {
		b, err := exec.Command(self, "apphash", "-procs", fmt.Sprint(p), path).CombinedOutput()
		if err != nil {
			return "", fmt.Errorf("apphash process failed: %v: %s", err, clip(string(b), 300))
		}
		outs = append(outs, string(b))
	}
	if outs[0] != outs[1] {
		a, b := strings.Split(outs[0], "\n"), strings.Split(outs[1], "\n")
		for i := range a {
			if i >= len(b) || a[i] != b[i] {
				return fmt.Sprintf("app hash of block %d differs between processes (GOMAXPROCS 1 vs 16)", i), nil
			}
		}
		return "process outputs differ", nil
	}
	return "", nil
}

// ---------------------------------------------------------------------------
// static tripwire
// ---------------------------------------------------------------------------

type tripHit struct {
	File, Func, What string
	Line             int
}

// allow-list: known benign constructs, identified by file and function.
var tripAllow = map[string]string{
	"x/alliance/invariants.go:ValidatorSharesInvariant:range-over-map": "ranges feed only the invariant's failure message; no state",
	"x/alliance/invariants.go:DelegatorSharesInvariant:range-over-map": "ranges feed only the invariant's failure message; no state",
}

func staticTripwire(repo string) (hits []tripHit, files int, err error) {
	roots := []string{"x/alliance", "custom/bank"}
	skipDirs := map[string]bool{"tests": true, "client": true, "simulation": true, "testutil": true}
	for _, root := range roots {
		err = filepath.Walk(filepath.Join(repo, root), func(path string, info os.FileInfo, e error) error {
			if e != nil {
				return e
			}
			if info.IsDir() {
				if skipDirs[info.Name()] {
					return filepath.SkipDir
				}
				return nil
			}
			if !strings.HasSuffix(path, ".go") || strings.HasSuffix(path, "_test.go") || strings.HasSuffix(path, ".pb.go") || strings.HasSuffix(path, ".pb.gw.go") {
				return nil
			}
			files++
			fset := token.NewFileSet()
			f, perr := parser.ParseFile(fset, path, nil, 0)
			if perr != nil {
				return perr
			}
			rel, _ := filepath.Rel(repo, path)
			for _, imp := range f.Imports {
				switch strings.Trim(imp.Path.Value, `"`) {
				case "math/rand", "math/rand/v2", "unsafe":
					hits = append(hits, tripHit{rel, "-", "import-" + strings.Trim(imp.Path.Value, `"`), fset.Position(imp.Pos()).Line})
				}
			}
			for _, decl := range f.Decls {
				fd, ok := decl.(*ast.FuncDecl)
				if !ok || fd.Body == nil {
					continue
				}
				maps := map[string]bool{}
				ast.Inspect(fd.Body, func(n ast.Node) bool {
					switch x := n.(type) {
					case *ast.AssignStmt:
						for i, rhs := range x.Rhs {
							if i < len(x.Lhs) && isMapExpr(rhs) {
								if id, ok := x.Lhs[i].(*ast.Ident); ok {
									maps[id.Name] = true
								}
							}
						}
					case *ast.ValueSpec:
						if _, ok := x.Type.(*ast.MapType); ok {
							for _, id := range x.Names {
								maps[id.Name] = true
							}
						}
						for i, v := range x.Values {
							if i < len(x.Names) && isMapExpr(v) {
								maps[x.Names[i].Name] = true
							}
						}
					}
					return true
				})
				ast.Inspect(fd.Body, func(n ast.Node) bool {
					switch x := n.(type) {
					case *ast.RangeStmt:
						if id, ok := x.X.(*ast.Ident); ok && maps[id.Name] {
							hits = append(hits, tripHit{rel, fd.Name.Name, "range-over-map", fset.Position(x.Pos()).Line})
						}
						if ix, ok := x.X.(*ast.IndexExpr); ok {
							if id, ok := ix.X.(*ast.Ident); ok && maps[id.Name] {
								// ranging over an element of a map of maps
								hits = append(hits, tripHit{rel, fd.Name.Name, "range-over-map", fset.Position(x.Pos()).Line})
							}
						}
						if isMapExpr(x.X) {
							hits = append(hits, tripHit{rel, fd.Name.Name, "range-over-map", fset.Position(x.Pos()).Line})
						}
					case *ast.GoStmt:
						hits = append(hits, tripHit{rel, fd.Name.Name, "go-statement", fset.Position(x.Pos()).Line})
					case *ast.SelectorExpr:
						if id, ok := x.X.(*ast.Ident); ok && id.Name == "time" && (x.Sel.Name == "Now" || x.Sel.Name == "Since" || x.Sel.Name == "Until") {
							hits = append(hits, tripHit{rel, fd.Name.Name, "time." + x.Sel.Name, fset.Position(x.Pos()).Line})
						}
					case *ast.BasicLit:
						if x.Kind == token.STRING && strings.Contains(x.Value, "%p") {
							hits = append(hits, tripHit{rel, fd.Name.Name, "format-%p", fset.Position(x.Pos()).Line})
						}
					}
					return true
				})
			}
			return nil
		})
		if err != nil {
			return
		}
	}
	return
}

func isMapExpr(e ast.Expr) bool {
	switch x := e.(type) {
	case *ast.CompositeLit:
		_, ok := x.Type.(*ast.MapType)
		return ok
	case *ast.CallExpr:
		if id, ok := x.Fun.(*ast.Ident); ok && id.Name == "make" && len(x.Args) > 0 {
			_, ok := x.Args[0].(*ast.MapType)
			return ok
		}
	}
	return false
}

func tripKey(h tripHit) string { return h.File + ":" + h.Func + ":" + h.What }

func runTripwire(repo string) (report map[string]any, violations []string) {
	hits, files, err := staticTripwire(repo)
	report = map[string]any{"files_scanned": files}
	if err != nil {
		report["error"] = err.Error()
		return
	}
	var allowed, flagged []string
	for _, h := range hits {
		k := tripKey(h)
		if why, ok := tripAllow[k]; ok {
			allowed = append(allowed, fmt.Sprintf("%s:%d %s (%s)", h.File, h.Line, h.What, why))
			continue
		}
		// telemetry timing in abci.go / module.go uses the block time, not the wall clock: time.Now would be flagged
		flagged = append(flagged, fmt.Sprintf("%s:%d in %s: %s", h.File, h.Line, h.Func, h.What))
	}
	report["allowed"] = allowed
	report["flagged"] = flagged
	violations = flagged
	return
}

var _ = json.Marshal
