package main

import (
	"fmt"
	"math/big"
	"time"

	sdkmath "cosmossdk.io/math"
)

// C09 take rate: exact compounding, exact transfer, bounded clock, never retroactive.
type monC09 struct {
	deposits map[string][]c09dep // denom -> successful deposits
	lastEnd  time.Time           // block time of the previous end-of-block
	stalls   map[int64]c09stall  // clock value (unix ns) -> first end-of-block that fired and left the clock behind
	curPrev  time.Time           // time of the end-of-block before the current block
}

type c09dep struct {
	at, prevEnd time.Time
}

type c09stall struct {
	seenAt   time.Time // block time of the end-of-block that fired without moving the clock
	firstEnd time.Time // end of the first interval counted from the stale clock, under the interval then in force
	eligible bool      // a chargeable asset existed (its deduction rounded to nothing): the open finding
}

func newMonC09() *monC09 {
	return &monC09{deposits: map[string][]c09dep{}, lastEnd: GenesisTime, stalls: map[int64]c09stall{}}
}
func (m *monC09) Name() string     { return "C09" }
func (m *monC09) Finish(r *Runner) {}

const c09prec = 2048

func bf(i *big.Int) *big.Float { return new(big.Float).SetPrec(c09prec).SetInt(i) }

// powFloat computes base^n (0 <= base <= 1) by squaring with 2048-bit floats.
func powFloat(base *big.Float, n uint64) *big.Float {
	res := new(big.Float).SetPrec(c09prec).SetInt64(1)
	b := new(big.Float).SetPrec(c09prec).Set(base)
	for n > 0 {
		if n&1 == 1 {
			res.Mul(res, b)
		}
		n >>= 1
		if n > 0 {
			b.Mul(b, b)
		}
	}
	return res
}

func floorFloat(f *big.Float) *big.Int {
	i, acc := f.Int(nil)
	if acc == big.Above || (f.Sign() < 0 && !f.IsInt()) {
		// Int truncates toward zero; adjust for negatives
		if f.Sign() < 0 {
			i.Sub(i, big.NewInt(1))
		}
	}
	return i
}

func (m *monC09) OnStep(r *Runner, st *Step) {
	pre, post := st.Pre, st.Post
	if st.Kind == "begin" {
		m.curPrev = m.lastEnd
	}
	if st.Kind == "op" && st.Res.OK && st.ROp.Op.K == "delegate" {
		m.deposits[st.ROp.Denom] = append(m.deposits[st.ROp.Denom], c09dep{at: post.Time, prevEnd: m.curPrev})
	}
	if st.Kind != "end" {
		// outside end-of-block nothing may move the take-rate clock except governance
		return
	}
	defer func() { m.lastEnd = post.Time }()
	if !pre.HasParams {
		return
	}
	L, I, T := pre.Params.LastTakeRateClaimTime, pre.Params.TakeRateClaimInterval, post.Time
	L2 := post.Params.LastTakeRateClaimTime
	r.Eval("C09.c")
	// (c) the clock never runs backwards and never passes the block time
	if !L.IsZero() && L2.Before(L) && !L.After(T) {
		r.Violate("C09.c", "clock-backwards", fmt.Sprintf("take-rate clock moved from %s back to %s", L, L2))
		return
	}
	if L2.After(T) && !L.After(T) {
		r.Violate("C09.c", "clock-past-block-time", fmt.Sprintf("take-rate clock %s is later than the block time %s", L2, T))
		return
	}
	fires := !L.IsZero() && I > 0 && T.After(L.Add(I))
	var n uint64
	if fires {
		n = uint64(T.Sub(L) / I)
		if n >= 2 {
			r.Probe("c09_multi_interval")
		}
		if T.Sub(L.Add(I)) <= 2 {
			r.Probe("c09_just_after_boundary")
		}
	} else if !L.IsZero() && I > 0 && T.Equal(L.Add(I)) {
		r.Probe("c09_exactly_at_boundary")
	}
	fl := flowsOf(st.Events)
	charged := false
	anyEligible := false
	for _, d := range pre.AssetOrder {
		a := pre.Assets[d]
		pa, ok := post.Assets[d]
		if !ok {
			continue
		}
		Td, Td2 := a.TotalTokens, pa.TotalTokens
		started := !T.Before(a.RewardStartTime)
		eligible := fires && Td.IsPositive() && a.TakeRate.IsPositive() && started
		// (rewards in this denom that could be credited to nobody also go back to the fee collector in end-of-block)
		toFee := netTransfer(fl, r.W.ModuleAddr.String(), r.W.FeeCollector.String(), d).Sub(returnedRewards(r, st.Events).AmountOf(d))
		// (b) exact transfer (the only custody -> fee-collector movement inside end-of-block)
		r.Eval("C09.b")
		if !toFee.Equal(Td.Sub(Td2)) {
			r.Violate("C09.b", "transfer-mismatch", fmt.Sprintf("asset %s: staked total %s -> %s but %s moved from custody to the fee collector", d, Td, Td2, toFee))
			return
		}
		if !eligible {
			// (f) not charged before reward start, at rate zero, or when the interval has not elapsed
			r.Eval("C09.f")
			if !Td2.Equal(Td) {
				why := "no whole interval has elapsed"
				if fires && !started {
					why = "the asset's rewards have not started"
				} else if fires && !a.TakeRate.IsPositive() {
					why = "its take rate is zero"
				}
				r.Violate("C09.f", "charged-when-not-due", fmt.Sprintf("asset %s charged %s although %s", d, Td.Sub(Td2), why))
				return
			}
			if fires && Td.IsPositive() && !started {
				r.Probe("c09_asset_in_warmup_skipped")
			}
			continue
		}
		anyEligible = true
		// (f) the charge must not reach back over intervals that ended before the asset's reward start time and
		// that an earlier end-of-block had already seen elapse (the interval in progress at the start, and
		// intervals swallowed by a single block gap, are allowed)
		if sl, stalled := m.stalls[L.UnixNano()]; stalled && !sl.firstEnd.After(a.RewardStartTime) && Td2.LT(Td) {
			r.Eval("C09.f")
			cls := "charged-for-warm-up-intervals"
			if sl.eligible {
				// the clock had stalled while a chargeable asset existed whose deduction rounded to nothing: open finding
				cls = "charged-for-warm-up-intervals:after-clock-stall"
			}
			r.Violate("C09.f", cls, fmt.Sprintf("asset %s (reward start %s) is charged for %d intervals counted from %s; the interval ending %s lies before its start and had elapsed by the previous end-of-block at %s", d, a.RewardStartTime, n, L, L.Add(I), m.lastEnd))
			if r.failed() {
				return
			}
		}
		// (a) exact compounding with interval acceptance
		r.Eval("C09.a")
		r.Nontrivial()
		one := new(big.Float).SetPrec(c09prec).SetInt64(1)
		rate := new(big.Float).SetPrec(c09prec).SetRat(ratDec(a.TakeRate))
		mult := powFloat(new(big.Float).SetPrec(c09prec).Sub(one, rate), n)
		x := new(big.Float).SetPrec(c09prec).Mul(mult, bf(Td.BigInt()))
		// bound on the accumulated 18-digit fixed-point error of Power (n multiplications at most doubling
		// an absolute error of 10^-18 each) times the total: 2*n*10^-18*T, plus the final MulInt rounding
		errB := new(big.Float).SetPrec(c09prec).Mul(bf(Td.BigInt()), new(big.Float).SetPrec(c09prec).SetFloat64(2e-18*float64(n)+1e-18))
		lo := floorFloat(new(big.Float).SetPrec(c09prec).Sub(x, errB))
		hi := floorFloat(new(big.Float).SetPrec(c09prec).Add(x, errB))
		got := Td2.BigInt()
		dustStop := lo.Cmp(big.NewInt(1)) <= 0 // the statement forbids driving a positive total to zero: not charging is acceptable when floor(...) may be <= 1
		if Td2.Equal(Td) && dustStop {
			r.Probe("c09_dust_not_reduced")
		} else if got.Cmp(lo) < 0 || got.Cmp(hi) > 0 {
			cls := "compounding"
			if Td2.Equal(Td) {
				cls = "not-charged-when-due"
			}
			r.Violate("C09.a", cls, fmt.Sprintf("asset %s: T=%s r=%s n=%d (clock %s, interval %s, block time %s): staked total became %s, floor(T(1-r)^n) is in [%s, %s]", d, Td, a.TakeRate, n, L, I, T, Td2, lo, hi))
			return
		}
		// (g) a rate below one never drives a positive total to zero
		r.Eval("C09.g")
		if Td2.IsZero() {
			r.Violate("C09.g", "driven-to-zero", fmt.Sprintf("asset %s: take rate %s reduced the staked total from %s to zero", d, a.TakeRate, Td))
			return
		}
		if Td2.LT(Td) {
			charged = true
			r.Probe("c09_deduction")
			// (d) every position shrinks by the same proportion (shares untouched)
			r.Eval("C09.d")
			f := rquo(ratInt(Td2), ratInt(Td))
			for _, p := range pre.DelOrder {
				if p.Denom != d {
					continue
				}
				want := rmul(pre.PosValue(p), f)
				if !within(want, post.PosValue(p), tolMax(pre, post, p.Val, d, want)) {
					r.Violate("C09.d", "not-proportional", fmt.Sprintf("position %s: %s -> %s, proportional shrink gives %s", p, rstr(pre.PosValue(p)), rstr(post.PosValue(p)), rstr(want)))
					return
				}
			}
			// (e) never retroactive: no deposit may be charged for an interval that had completely elapsed
			// and been visible to an earlier end-of-block before the deposit's block began
			r.Eval("C09.e")
			sl, stalled := m.stalls[L.UnixNano()]
			firstIntervalEnd := sl.firstEnd
			for _, dep := range m.deposits[d] {
				// the deposit arrived after an end-of-block had already fired on this clock value and left it behind
				if stalled && dep.at.After(sl.seenAt) {
					ecls := "retroactive-charge"
					if sl.eligible {
						ecls = "retroactive-charge-after-clock-stall"
					}
					r.Violate("C09.e", ecls, fmt.Sprintf("asset %s: stake deposited at %s (previous end-of-block %s) is charged for %d interval(s) counted from the stale clock %s; the interval ending %s had elapsed before the deposit", d, dep.at, dep.prevEnd, n, L, firstIntervalEnd))
					if r.failed() {
						return
					}
					break
				}
			}
		}
	}
	// (c) clock advance
	if charged {
		want := L.Add(time.Duration(n) * I)
		if !L2.Equal(want) {
			r.Violate("C09.c", "clock-advance", fmt.Sprintf("a deduction for n=%d intervals moved the clock from %s to %s, expected %s", n, L, L2, want))
			return
		}
	} else if fires && !L2.Equal(L) {
		r.Probe("c09_clock_moved_without_charge")
	} else if fires && L2.Equal(L) {
		r.Probe("c09_clock_stalled")
		if _, seen := m.stalls[L.UnixNano()]; !seen {
			m.stalls[L.UnixNano()] = c09stall{seenAt: T, firstEnd: L.Add(I), eligible: anyEligible}
		}
		if !anyEligible {
			// nothing was chargeable at all (no started asset with a positive rate and stake): a clock left behind
			// here makes whatever becomes chargeable next pay for these elapsed intervals
			r.Violate("C09.c", "clock-stalled-without-chargeable-asset", fmt.Sprintf("a whole interval elapsed (clock %s, interval %s, block time %s), no asset was chargeable, and the clock was not moved", L, I, T))
			return
		}
	}
	if !fires && !L.IsZero() && !L2.Equal(L) {
		r.Violate("C09.c", "clock-moved-early", fmt.Sprintf("no whole interval elapsed (clock %s, interval %s, block time %s) but the clock moved to %s", L, I, T, L2))
	}
}

var _ = sdkmath.ZeroInt
