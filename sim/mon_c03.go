package main

import (
	"fmt"
	"sort"
	"strings"

	sdkmath "cosmossdk.io/math"
	sdk "github.com/cosmos/cosmos-sdk/types"

	alliancemodule "github.com/terra-money/alliance/x/alliance"
)

// C03 share ledger consistency, recomputed from raw records after every step.
type monC03 struct{}

func newMonC03() *monC03       { return &monC03{} }
func (m *monC03) Name() string { return "C03" }

func (m *monC03) OnStep(r *Runner, st *Step) {
	s := st.Post
	broken := false
	// (a) sum of delegation shares per (validator, denom) == validator's TotalDelegatorShares
	sum := map[string]sdkmath.LegacyDec{}
	for _, pk := range s.DelOrder {
		d := s.Dels[pk]
		r.Eval("C03.c")
		if d.Shares.IsNegative() {
			r.Violate("C03.c", "negative-delegation-shares", fmt.Sprintf("%s shares %s", pk, d.Shares))
			return
		}
		k := pk.Val + "|" + pk.Denom
		cur, ok := sum[k]
		if !ok {
			cur = sdkmath.LegacyZeroDec()
		}
		sum[k] = cur.Add(d.Shares)
	}
	seen := map[string]bool{}
	for _, v := range s.ValOrder {
		vi := s.ValInfos[v]
		for _, c := range vi.TotalDelegatorShares {
			k := v + "|" + c.Denom
			seen[k] = true
			r.Eval("C03.a")
			if c.Amount.IsNegative() {
				r.Violate("C03.c", "negative-total-delegator-shares", fmt.Sprintf("%s %s", short(v), c))
				return
			}
			have, ok := sum[k]
			if !ok {
				have = sdkmath.LegacyZeroDec()
			}
			if have.GT(c.Amount) && r.StrandedVals[v] {
				// the validator was removed by x/staking while it carried alliance delegations and created again:
				// the new record starts empty, the old delegations are still there (open finding)
				broken = true
				r.Violate("C03.a", "delegator-share-sum:validator-removed-by-staking", fmt.Sprintf("validator %s denom %s: delegations sum to %s, recorded total %s", short(v), c.Denom, have, c.Amount))
				if r.failed() {
					return
				}
				continue
			}
			if !have.Equal(c.Amount) {
				broken = true
				r.Violate("C03.a", "delegator-share-sum:"+st.Kind+":"+stepOpKind(st), fmt.Sprintf("validator %s denom %s: delegations sum to %s, recorded total %s (diff %s)", short(v), c.Denom, have, c.Amount, have.Sub(c.Amount)))
				return
			}
		}
		for _, c := range vi.ValidatorShares {
			if c.Amount.IsNegative() {
				r.Violate("C03.c", "negative-validator-shares", fmt.Sprintf("%s %s", short(v), c))
				return
			}
		}
	}
	var sk []string
	for k := range sum {
		sk = append(sk, k)
	}
	sort.Strings(sk)
	for _, k := range sk {
		if !seen[k] && !sum[k].IsZero() && r.StrandedVals[k[:strings.Index(k, "|")]] {
			broken = true
			r.Violate("C03.a", "delegations-without-total:validator-removed-by-staking", fmt.Sprintf("%s: delegations sum to %s but the validator's record was deleted when x/staking removed the validator", k, sum[k]))
			if r.failed() {
				return
			}
			continue
		}
		if !seen[k] && !sum[k].IsZero() {
			broken = true
			r.Violate("C03.a", "delegations-without-total:"+st.Kind+":"+stepOpKind(st), fmt.Sprintf("%s: delegations sum to %s but the validator records no delegator-share total", k, sum[k]))
			return
		}
	}
	// (b) sum of validator shares per denom == asset.TotalValidatorShares
	vsum := map[string]sdkmath.LegacyDec{}
	for _, v := range s.ValOrder {
		for _, c := range s.ValInfos[v].ValidatorShares {
			cur, ok := vsum[c.Denom]
			if !ok {
				cur = sdkmath.LegacyZeroDec()
			}
			vsum[c.Denom] = cur.Add(c.Amount)
		}
	}
	for _, d := range s.AssetOrder {
		a := s.Assets[d]
		r.Eval("C03.b")
		if a.TotalValidatorShares.IsNegative() || a.TotalTokens.IsNegative() {
			r.Violate("C03.c", "negative-asset-total", fmt.Sprintf("%s tokens %s shares %s", d, a.TotalTokens, a.TotalValidatorShares))
			return
		}
		have, ok := vsum[d]
		if !ok {
			have = sdkmath.LegacyZeroDec()
		}
		if have.LT(a.TotalValidatorShares) && r.StrandedDenoms[d] {
			// the asset's total still counts the shares of the validator record that was deleted
			broken = true
			r.Violate("C03.b", "validator-share-sum:validator-removed-by-staking", fmt.Sprintf("asset %s: validators' shares sum to %s, recorded total %s (diff %s)", d, have, a.TotalValidatorShares, have.Sub(a.TotalValidatorShares)))
			if r.failed() {
				return
			}
			continue
		}
		if !have.Equal(a.TotalValidatorShares) {
			broken = true
			r.Violate("C03.b", "validator-share-sum:"+st.Kind+":"+stepOpKind(st), fmt.Sprintf("asset %s: validators' shares sum to %s, recorded total %s (diff %s)", d, have, a.TotalValidatorShares, have.Sub(a.TotalValidatorShares)))
			return
		}
		// (d) a drained asset has its share records reset
		if a.TotalTokens.IsZero() {
			r.Eval("C03.d")
			if !a.TotalValidatorShares.IsZero() || !have.IsZero() {
				r.Violate("C03.d", "dust-after-drain", fmt.Sprintf("asset %s has zero staked total but share total %s / validators' shares %s", d, a.TotalValidatorShares, have))
				return
			}
			if st.Pre != nil {
				if pa, ok := st.Pre.Assets[d]; ok && pa.TotalTokens.IsPositive() {
					r.Probe("c03_drained_to_zero")
					r.Nontrivial()
				}
			}
		}
		for _, h := range s.ValOrder {
			for _, rh := range s.ValInfos[h].GlobalRewardHistory {
				if rh.Index.IsNegative() {
					r.Violate("C03.c", "negative-reward-index", fmt.Sprintf("%s %s", short(h), rh.Denom))
					return
				}
			}
		}
	}
	if len(st.Slashes) > 0 && len(s.Dels) > 0 {
		r.Probe("c03_after_slash")
		r.Nontrivial()
	}
	if len(s.Dels) >= 3 {
		r.Nontrivial()
	}
	// (e) the module's own registered invariants must agree
	r.Eval("C03.e")
	msg, stop := alliancemodule.RunAllInvariants(r.Branch(), r.W.App.AllianceKeeper)
	if stop && !broken {
		r.Violate("C03.e", "module-invariant-disagrees", "module invariant broken while the independent recomputation holds: "+msg)
	}
}

func (m *monC03) Finish(r *Runner) {}

var _ = sdk.NewCoin
