package main

import (
	"encoding/hex"
	"fmt"
	"math"
	"math/big"
	"os"
	"runtime/debug"
	"sort"
	"strconv"
	"strings"
	"time"

	corecomet "cosmossdk.io/core/comet"
	sdkmath "cosmossdk.io/math"
	storetypes "cosmossdk.io/store/types"
	abci "github.com/cometbft/cometbft/abci/types"
	cmtproto "github.com/cometbft/cometbft/proto/tendermint/types"
	codectypes "github.com/cosmos/cosmos-sdk/codec/types"
	sdk "github.com/cosmos/cosmos-sdk/types"
	banktypes "github.com/cosmos/cosmos-sdk/x/bank/types"
	govv1beta1 "github.com/cosmos/cosmos-sdk/x/gov/types/v1beta1"
	slashingtypes "github.com/cosmos/cosmos-sdk/x/slashing/types"
	stakingtypes "github.com/cosmos/cosmos-sdk/x/staking/types"

	alliancemodule "github.com/terra-money/alliance/x/alliance"
	alliancekeeper "github.com/terra-money/alliance/x/alliance/keeper"
	alliancetypes "github.com/terra-money/alliance/x/alliance/types"
)

// ---------------------------------------------------------------------------
// comet.BlockInfo seam (the scheduler is consensus)
// ---------------------------------------------------------------------------

type simComet struct {
	ev       []abci.Misbehavior
	proposer []byte
	votes    []abci.VoteInfo
}

func (c simComet) GetEvidence() corecomet.EvidenceList { return simEvList(c.ev) }
func (c simComet) GetValidatorsHash() []byte           { return nil }
func (c simComet) GetProposerAddress() []byte          { return c.proposer }
func (c simComet) GetLastCommit() corecomet.CommitInfo { return simCommit(c.votes) }

type simEvList []abci.Misbehavior

func (l simEvList) Len() int                     { return len(l) }
func (l simEvList) Get(i int) corecomet.Evidence { return simEv{l[i]} }

type simEv struct{ m abci.Misbehavior }

func (e simEv) Type() corecomet.MisbehaviorType { return corecomet.MisbehaviorType(e.m.Type) }
func (e simEv) Validator() corecomet.Validator  { return simVal{e.m.Validator} }
func (e simEv) Height() int64                   { return e.m.Height }
func (e simEv) Time() time.Time                 { return e.m.Time }
func (e simEv) TotalVotingPower() int64         { return e.m.TotalVotingPower }

type simVal struct{ v abci.Validator }

func (v simVal) Address() []byte { return v.v.Address }
func (v simVal) Power() int64    { return v.v.Power }

type simCommit []abci.VoteInfo

func (c simCommit) Round() int32               { return 0 }
func (c simCommit) Votes() corecomet.VoteInfos { return simVotes(c) }

type simVotes []abci.VoteInfo

func (v simVotes) Len() int                     { return len(v) }
func (v simVotes) Get(i int) corecomet.VoteInfo { return simVote{v[i]} }

type simVote struct{ v abci.VoteInfo }

func (v simVote) Validator() corecomet.Validator { return simVal{v.v.Validator} }
func (v simVote) GetBlockIDFlag() corecomet.BlockIDFlag {
	return corecomet.BlockIDFlag(v.v.BlockIdFlag)
}

// ---------------------------------------------------------------------------
// Steps, results, monitors
// ---------------------------------------------------------------------------

type ROp struct {
	Op     *Op
	Del    sdk.AccAddress
	Val    sdk.ValAddress
	Dst    sdk.ValAddress
	Denom  string
	Amount sdkmath.Int
	Msg    sdk.Msg
	Note   string
}

type OpResult struct {
	OK       bool
	Err      string
	Panic    bool
	OutOfGas bool
	Stack    string
	Events   []abci.Event
	Resp     any
}

type SlashObs struct {
	Val      string
	Fraction sdkmath.LegacyDec
}

type Step struct {
	Kind    string // begin | slash | op | end | tail
	Block   int
	OpIdx   int
	ROp     *ROp
	Res     *OpResult
	Pre     *Snap
	Post    *Snap
	Slashes []SlashObs // slashes that reached the hooks during this step
	Logs    []LogLine
	Events  []abci.Event
	Name    string
	Tail    bool // quiescent tail (no faults)
}

type Monitor interface {
	Name() string
	OnStep(r *Runner, st *Step)
	Finish(r *Runner)
}

type RunStats struct {
	Blocks     int            `json:"blocks"`
	Steps      int            `json:"steps"`
	SimTimeNs  int64          `json:"sim_time_ns"`
	OpsByKind  map[string]int `json:"ops_by_kind"`
	OpsOK      int            `json:"ops_ok"`
	OpsFailed  int            `json:"ops_failed"`
	Faults     map[string]int `json:"faults"`
	Probes     map[string]int `json:"probes"`
	Clauses    map[string]int `json:"clauses"`
	KnownHits  map[string]int `json:"known_hits"`
	Sig        string         `json:"sig"`
	Nontrivial bool           `json:"nontrivial"`
	Halt       string         `json:"halt,omitempty"`
	Foreign    string         `json:"foreign,omitempty"`
	OutOfModel string         `json:"out_of_model,omitempty"`
	OtherProps map[string]int `json:"other_props,omitempty"`
}

func newRunStats() *RunStats {
	return &RunStats{OpsByKind: map[string]int{}, Faults: map[string]int{}, Probes: map[string]int{}, Clauses: map[string]int{}, KnownHits: map[string]int{}, OtherProps: map[string]int{}}
}

type Runner struct {
	W      *World
	S      *Schedule
	Target string
	Mons   []Monitor
	Stats  *RunStats
	Viols  []ViolationRec
	Known  []ViolationRec // violations matched by an open known finding (reported, not fatal)
	KF     *KnownFindings

	BlockIdx   int
	StepName   string
	BlockTimes map[int64]time.Time
	RootCtx    sdk.Context
	sigParts   []string
	Trace      []string // human readable step log (replay -v)
	Verbose    bool
	Halted     bool
	StopOnViol bool

	QS alliancetypes.QueryServer
	MS alliancetypes.MsgServer

	shadowHash   string
	expectHash   string
	shadowStores map[string]string
	lastEvents   []abci.Event
	haltPre      *Snap
	curBlock     *Block

	// consensus inputs of the block being executed (used by the ABCI differential executor)
	lastVotes    []abci.VoteInfo
	lastMis      []abci.Misbehavior
	lastProposer []byte

	// C19
	branchMode    bool
	branchStores  map[string]string
	siblings      func(b *Block)
	afterBlock    func(b *Block)
	expectSibling *transcript
	recordHashes  bool
	blockHashes   []string

	// validators that x/staking removed while alliance delegations pointed at them, and the denoms of those
	// delegations (sticky for the run: the validator record that a later create-validator makes is a new, empty one)
	StrandedVals   map[string]bool
	StrandedDenoms map[string]bool

	ApplyExportImport bool // C18 run B: perform export -> wipe -> import at the marked block boundaries
	exportFlagSet     bool
	exportMerged      bool
}

func NewRunner(w *World, s *Schedule, target string, mons []Monitor, kf *KnownFindings) *Runner {
	return &Runner{W: w, S: s, Target: target, Mons: mons, Stats: newRunStats(), KF: kf,
		BlockTimes: map[int64]time.Time{1: GenesisTime}, StopOnViol: true,
		StrandedVals: map[string]bool{}, StrandedDenoms: map[string]bool{},
		QS: alliancekeeper.NewQueryServerImpl(w.App.AllianceKeeper),
		MS: alliancekeeper.NewMsgServerImpl(w.App.AllianceKeeper),
	}
}

func (r *Runner) rebind() {
	r.QS = alliancekeeper.NewQueryServerImpl(r.W.App.AllianceKeeper)
	r.MS = alliancekeeper.NewMsgServerImpl(r.W.App.AllianceKeeper)
}

func (r *Runner) Probe(name string)  { r.Stats.Probes[name]++ }
func (r *Runner) Eval(clause string) { r.Stats.Clauses[clause]++ }
func (r *Runner) Fault(name string)  { r.Stats.Faults[name]++ }
func (r *Runner) Nontrivial()        { r.Stats.Nontrivial = true }

// Violate records a violation of clause (e.g. "C07.a"). class is the fingerprint class.
func (r *Runner) Violate(clause, class, detail string) {
	prop := clause
	if i := strings.Index(clause, "."); i > 0 {
		prop = clause[:i]
	}
	v := ViolationRec{Property: prop, Clause: clause, Block: r.BlockIdx, Step: r.StepName, Detail: detail, Class: class}
	if r.Target != "" && prop != r.Target {
		// not this check's property: recorded for the evidence file, never reported as a violation here
		r.Stats.OtherProps[clause+"|"+class]++
		return
	}
	if r.KF != nil {
		if id := r.KF.Match(v); id != "" {
			r.Stats.KnownHits[id]++
			if len(r.Known) < 50 {
				r.Known = append(r.Known, v)
			}
			return
		}
	}
	r.Viols = append(r.Viols, v)
	if r.Verbose {
		r.Trace = append(r.Trace, fmt.Sprintf("  !! VIOLATION %s [%s] %s", clause, class, detail))
	}
}

// strandedPos: the position sits on a validator whose alliance record was deleted when x/staking removed the
// validator (open finding): the record is missing, or it was created again empty and the delegations of
// (validator, denom) add up to more than it records.
func (r *Runner) strandedPos(s *Snap, val, denom string) bool {
	if !r.StrandedVals[val] {
		return false
	}
	vi, ok := s.ValInfos[val]
	if _, sok := s.StVals[val]; !ok || !sok {
		return true
	}
	sum := sdkmath.LegacyZeroDec()
	for pk, d := range s.Dels {
		if pk.Val == val && pk.Denom == denom {
			sum = sum.Add(d.Shares)
		}
	}
	return sum.GT(decCoinsAmount(vi.TotalDelegatorShares, denom))
}

func (r *Runner) failed() bool { return len(r.Viols) > 0 && r.StopOnViol }

// Branch returns a throw-away branch of the current root context.
func (r *Runner) Branch() sdk.Context {
	c, _ := r.RootCtx.CacheContext()
	return c.WithEventManager(sdk.NewEventManager())
}

func (r *Runner) sig(parts ...string) {
	r.sigParts = append(r.sigParts, strings.Join(parts, ":"))
}

func (r *Runner) tracef(f string, a ...any) {
	if r.Verbose {
		r.Trace = append(r.Trace, fmt.Sprintf(f, a...))
	}
}

// ---------------------------------------------------------------------------
// helpers: validators, votes
// ---------------------------------------------------------------------------

func (w *World) valByIdx(i int) ValActor {
	n := len(w.Vals)
	if i < 0 {
		i = -i
	}
	return w.Vals[i%n]
}

// existingVals are the validator slots known to staking.
func (w *World) existingVals(ctx sdk.Context) []ValActor {
	var out []ValActor
	for _, v := range w.Vals {
		if _, err := w.App.StakingKeeper.GetValidator(ctx, v.ValAddr); err == nil {
			out = append(out, v)
		}
	}
	return out
}

func (w *World) valActorByOper(oper string) (ValActor, bool) {
	for _, v := range w.Vals {
		if v.ValAddr.String() == oper {
			return v, true
		}
	}
	return ValActor{}, false
}

type lastVal struct {
	va    ValActor
	power int64
}

func (w *World) lastValidatorSet(ctx sdk.Context) []lastVal {
	var out []lastVal
	_ = w.App.StakingKeeper.IterateLastValidatorPowers(ctx, func(op sdk.ValAddress, power int64) bool {
		if va, ok := w.valActorByOper(op.String()); ok {
			out = append(out, lastVal{va, power})
		}
		return false
	})
	sort.Slice(out, func(i, j int) bool { return out[i].va.Idx < out[j].va.Idx })
	return out
}

// ---------------------------------------------------------------------------
// dt resolution (clock seam)
// ---------------------------------------------------------------------------

func (r *Runner) resolveDt(d DtSpec, pre *Snap) time.Duration {
	now := r.W.Now
	var target *time.Time
	pick := func(t time.Time) {
		if t.After(now) && (target == nil || t.Before(*target)) {
			tt := t
			target = &tt
		}
	}
	switch d.To {
	case "unbonding":
		for _, q := range pre.UndelQueue {
			pick(q.Completion)
		}
	case "redelegation":
		for _, q := range pre.RedelQueue {
			pick(q.Completion)
		}
	case "takerate":
		if pre.HasParams && !pre.Params.LastTakeRateClaimTime.IsZero() {
			pick(pre.Params.LastTakeRateClaimTime.Add(pre.Params.TakeRateClaimInterval))
		}
	case "start":
		for _, a := range pre.Assets {
			pick(a.RewardStartTime)
		}
	case "decay":
		for _, a := range pre.Assets {
			if a.RewardChangeInterval > 0 {
				pick(a.LastRewardChangeTime.Add(a.RewardChangeInterval))
			}
		}
	}
	var dt time.Duration
	if target != nil {
		dt = target.Sub(now) + time.Duration(d.Off)
		r.Probe("dt_to_" + d.To)
	} else {
		dt = time.Duration(d.Ns)
	}
	if dt <= 0 {
		dt = 1 // block time strictly increases
	}
	const maxDt = 400 * 24 * time.Hour
	if dt > maxDt {
		dt = maxDt
	}
	return dt
}

// ---------------------------------------------------------------------------
// Run
// ---------------------------------------------------------------------------

type haltInfo struct {
	where   string
	err     string
	stack   string
	foreign bool
}

func isAllianceFailure(err, stack string) bool {
	return strings.Contains(err, "x/alliance") || strings.Contains(stack, "terra-money/alliance/x/alliance") || strings.Contains(stack, "/repo/x/alliance")
}

func (r *Runner) Run() {
	w := r.W
	for bi := range r.S.Blocks {
		if r.failed() || r.Halted {
			return
		}
		r.BlockIdx = bi
		b := &r.S.Blocks[bi]
		if b.Crash == "before_commit" {
			r.runBlockShadowThenCrash(b)
		}
		if r.siblings != nil {
			r.siblings(b)
			if r.failed() {
				return
			}
		}
		r.runBlock(b, false)
		if r.afterBlock != nil {
			r.afterBlock(b)
		}
		if r.Halted || r.failed() {
			return
		}
		if b.Crash == "after_commit" {
			d0 := w.TakeSnap(w.CtxAt(w.Height, w.Now, nil)).Digest()
			w.Reopen()
			r.rebind()
			d1 := w.TakeSnap(w.CtxAt(w.Height, w.Now, nil)).Digest()
			r.Fault("F6_crash_after_commit")
			r.Eval("C19.c")
			if d0 != d1 {
				r.Violate("C19.c", "durability", fmt.Sprintf("module state after restart differs from committed state: %s vs %s", d0, d1))
			}
		}
	}
	for _, m := range r.Mons {
		if r.failed() {
			break
		}
		m.Finish(r)
	}
	r.Stats.Sig = hashStrings(r.sigParts)
}

func hashStrings(parts []string) string {
	var kvs []KV
	for _, p := range parts {
		kvs = append(kvs, KV{K: []byte(p)})
	}
	return hashKVs(kvs)
}

// shadow execution: run the block without monitors, remember the working hash, crash, reopen.
func (r *Runner) runBlockShadowThenCrash(b *Block) {
	w := r.W
	saveH, saveNow := w.Height, w.Now
	saveTimes := map[int64]time.Time{}
	for k, v := range r.BlockTimes {
		saveTimes[k] = v
	}
	mons := r.Mons
	r.Mons = nil
	stats := r.Stats
	r.Stats = newRunStats()
	sigSave := r.sigParts
	trace := r.Trace
	r.shadowHash = ""
	r.runBlock(b, true)
	h1 := r.shadowHash
	// crash: everything uncommitted is lost
	w.Reopen()
	r.rebind()
	w.Height, w.Now = saveH, saveNow
	r.BlockTimes = saveTimes
	r.Mons = mons
	r.Stats = stats
	r.sigParts = sigSave
	r.Trace = trace
	r.Halted = false
	r.expectHash = h1
	r.Fault("F6_crash_before_commit")
}

func (r *Runner) runBlock(b *Block, shadow bool) {
	w := r.W
	if dir := os.Getenv("VERIF_TRACEKV"); dir != "" && !r.branchMode {
		// diagnostics: every KV operation of this block execution goes to a file
		f, err := os.Create(fmt.Sprintf("%s/kv-b%d-shadow%v.log", dir, r.BlockIdx, shadow))
		if err == nil {
			w.App.CommitMultiStore().SetTracer(f)
			defer func() { w.App.CommitMultiStore().SetTracer(nil); f.Close() }()
		}
	}
	// the snapshot before the block is taken at the previous block's header
	preCtx := w.CtxAt(w.Height, w.Now, nil)
	pre := w.TakeSnap(preCtx)
	r.curBlock = b
	dt := r.resolveDt(b.Dt, pre)
	if dt >= 24*time.Hour {
		r.Fault("F5_chain_halt_over_1_day")
	} else if b.Dt.To != "" {
		r.Fault("F5_block_time_aimed_at_deadline")
	}
	w.Height++
	w.Now = w.Now.Add(dt)
	r.BlockTimes[w.Height] = w.Now
	r.Stats.Blocks++
	r.Stats.SimTimeNs += int64(dt)

	// ---- consensus stub: votes of the validator set of the previous block, evidence
	last := w.lastValidatorSet(preCtx)
	absent := map[int]bool{}
	for _, a := range b.Absent {
		absent[w.valByIdx(a).Idx] = true
	}
	var votes []abci.VoteInfo
	var proposer sdk.ConsAddress
	totalPower := int64(0)
	for _, lv := range last {
		flag := cmtproto.BlockIDFlagCommit
		if absent[lv.va.Idx] {
			flag = cmtproto.BlockIDFlagAbsent
			r.Probe("vote_absent")
		}
		votes = append(votes, abci.VoteInfo{Validator: abci.Validator{Address: lv.va.ConsAddr, Power: lv.power}, BlockIdFlag: flag})
		totalPower += lv.power
	}
	if len(last) > 0 {
		p := b.Proposer
		if p < 0 {
			p = -p
		}
		proposer = last[p%len(last)].va.ConsAddr
	}
	var mis []abci.Misbehavior
	for _, e := range b.Evidence {
		va := w.valByIdx(e.Val)
		age := e.Age
		if age < 1 {
			age = 1
		}
		ih := w.Height - age
		if ih < 1 {
			ih = 1
		}
		it, ok := r.BlockTimes[ih]
		if !ok {
			it = GenesisTime
		}
		var power int64
		for _, lv := range last {
			if lv.va.Idx == va.Idx {
				power = lv.power
			}
		}
		sv, err := w.App.StakingKeeper.GetValidator(preCtx, va.ValAddr)
		if err != nil {
			// CometBFT only reports evidence for validators that were in a recent validator set
			r.Probe("evidence_dropped_unknown_validator")
			continue
		}
		if power == 0 {
			power = sv.ConsensusPower(sdk.DefaultPowerReduction)
		}
		pp := power * int64(e.PowerPct) / 100
		if pp < 1 {
			pp = 1
		}
		mis = append(mis, abci.Misbehavior{Type: abci.MisbehaviorType_DUPLICATE_VOTE, Validator: abci.Validator{Address: va.ConsAddr, Power: pp}, Height: ih, Time: it, TotalVotingPower: totalPower})
	}

	r.lastVotes, r.lastMis, r.lastProposer = votes, mis, proposer
	root := w.CtxAt(w.Height, w.Now, proposer).WithVoteInfos(votes).WithCometInfo(simComet{ev: mis, proposer: proposer, votes: votes})
	if r.branchMode {
		// sibling execution: the whole block runs on a discarded branch of the committed state
		cc, _ := root.CacheContext()
		root = cc
	}
	r.RootCtx = root

	// ---- BeginBlock
	w.Log.Drain()
	tail := r.BlockIdx >= r.S.TailFrom
	st := &Step{Kind: "begin", Block: r.BlockIdx, Pre: pre, Name: fmt.Sprintf("b%d/begin", r.BlockIdx), Tail: tail}
	var phaseEvents []abci.Event
	if hi := r.guarded("BeginBlock", func(ctx sdk.Context) error {
		bb, err := w.App.BeginBlocker(ctx)
		phaseEvents = bb.Events
		return err
	}); hi != nil {
		r.halt(hi)
		return
	}
	r.lastEvents = append(r.lastEvents, phaseEvents...)
	r.finishStep(st)
	pre = st.Post
	if r.failed() {
		return
	}

	// ---- direct slashes (what x/slashing and x/evidence do, at a moment chosen by the scheduler)
	for si := range b.Slashes {
		op := &b.Slashes[si]
		st := &Step{Kind: "slash", Block: r.BlockIdx, OpIdx: si, Pre: pre, Name: fmt.Sprintf("b%d/slash%d", r.BlockIdx, si), Tail: tail}
		st.ROp = &ROp{Op: op}
		r.execSlashDirect(st)
		r.finishStep(st)
		pre = st.Post
		if r.failed() {
			return
		}
	}

	// ---- transactions
	for oi := range b.Ops {
		op := &b.Ops[oi]
		for rep := 0; rep <= op.Dup; rep++ {
			st := &Step{Kind: "op", Block: r.BlockIdx, OpIdx: oi, Pre: pre, Name: fmt.Sprintf("b%d/op%d.%d:%s", r.BlockIdx, oi, rep, op.K), Tail: tail}
			r.execOp(st, op)
			if rep > 0 {
				r.Fault("F4_duplicate")
			}
			r.finishStep(st)
			pre = st.Post
			if r.failed() {
				return
			}
		}
	}

	// ---- EndBlock
	st = &Step{Kind: "end", Block: r.BlockIdx, Pre: pre, Name: fmt.Sprintf("b%d/end", r.BlockIdx), Tail: tail}
	r.haltPre = pre
	phaseEvents = nil
	if hi := r.guarded("EndBlock", func(ctx sdk.Context) error {
		eb, err := w.App.EndBlocker(ctx)
		phaseEvents = eb.Events
		return err
	}); hi != nil {
		r.halt(hi)
		return
	}
	r.lastEvents = append(r.lastEvents, phaseEvents...)
	r.finishStep(st)
	if r.failed() {
		return
	}
	// ---- consensus stub: CometBFT refuses a validator set whose total voting power exceeds MaxInt64/8 (it panics
	// when the update is applied, and x/distribution's int64 sum overflows before that). A reward weight accepted by
	// governance can mint that much stake (weight 10^18 x native stake); no listed property speaks about it, the
	// run simply cannot continue in any real deployment. It ends here and is counted.
	{
		total := new(big.Int)
		for _, lv := range w.lastValidatorSet(r.RootCtx) {
			total.Add(total, big.NewInt(lv.power))
		}
		if total.Cmp(big.NewInt(math.MaxInt64/8)) > 0 {
			r.Probe("run_ended_total_voting_power_above_cometbft_limit")
			r.Halted = true
			r.Stats.OutOfModel = fmt.Sprintf("total voting power %s exceeds CometBFT's MaxTotalVotingPower", total)
			if !shadow {
				w.App.CommitMultiStore().Commit()
			}
			return
		}
	}

	// ---- commit (or, in shadow mode, only remember the working hash)
	if shadow {
		if r.branchMode {
			r.branchStores = r.storeDigests()
		} else {
			r.shadowHash = hex.EncodeToString(w.App.CommitMultiStore().WorkingHash())
			r.shadowStores = r.allStoreDigests()
		}
		return
	}
	if b.ExportImport && r.ApplyExportImport && !shadow {
		r.doExportImport()
		if r.failed() {
			return
		}
	}
	id := w.App.CommitMultiStore().Commit()
	if r.recordHashes {
		r.blockHashes = append(r.blockHashes, hex.EncodeToString(id.Hash))
	}
	if r.expectHash != "" {
		// crash before commit: the re-execution must reproduce the lost execution. The comparison is on
		// the byte content of every KV store. The IAVL root hash is compared too but a mismatch with
		// identical content is only counted: iavl v1.0.1 gives a tree that was reloaded from disk after a
		// version containing a Remove a different shape/hash than the live tree for the same later writes
		// (reproduced on the library alone, DESIGN 6.3) - a dependency artefact, not a property of the
		// module's transitions.
		r.Eval("C19.c")
		got := hex.EncodeToString(id.Hash)
		var differ []string
		now := r.allStoreDigests()
		for _, name := range allStoreNames {
			if now[name] != r.shadowStores[name] {
				differ = append(differ, name)
			}
		}
		if len(differ) > 0 {
			r.Violate("C19.c", "crash-reexec", fmt.Sprintf("re-execution after a crash before commit differs from the lost execution in the content of stores %v (app hash %s vs %s)", differ, got, r.expectHash))
		} else if got != r.expectHash {
			r.Probe("c19_iavl_root_hash_differs_after_reload_with_identical_content")
		} else {
			r.Probe("c19_crash_reexec_same_app_hash")
		}
		r.expectHash = ""
	}
}

// guarded runs a block-level phase on a branch of the root context; writes it only on success.
func (r *Runner) guarded(where string, f func(ctx sdk.Context) error) (hi *haltInfo) {
	cctx, write := r.RootCtx.CacheContext()
	em := sdk.NewEventManager()
	cctx = cctx.WithEventManager(em)
	r.lastEvents = nil
	func() {
		defer func() {
			if rec := recover(); rec != nil {
				stack := string(debug.Stack())
				hi = &haltInfo{where: where, err: fmt.Sprintf("panic: %v", rec), stack: stack}
			}
		}()
		if err := f(cctx); err != nil {
			hi = &haltInfo{where: where, err: err.Error()}
		}
	}()
	if hi != nil {
		hi.foreign = !isAllianceFailure(hi.err, hi.stack)
		return hi
	}
	write()
	r.lastEvents = em.ABCIEvents()
	return nil
}

func (r *Runner) halt(hi *haltInfo) {
	r.Halted = true
	r.StepName = fmt.Sprintf("b%d/%s", r.BlockIdx, hi.where)
	msg := fmt.Sprintf("%s failed: %s", hi.where, hi.err)
	if hi.foreign {
		r.Stats.Foreign = msg
		r.tracef("  FOREIGN HALT %s\n%s", msg, hi.stack)
		if r.haltPre != nil {
			for _, v := range r.haltPre.StValOrder {
				sv := r.haltPre.StVals[v]
				r.tracef("    validator %s status=%s jailed=%v tokens=%s shares=%s commission=%s", short(v), sv.Status, sv.Jailed, sv.Tokens, sv.DelegatorShares, sv.Commission.Rate)
			}
		}
		return
	}
	r.Stats.Halt = msg
	if hi.where == "BeginBlock" {
		// the only alliance code reachable from BeginBlock is the staking hook set (slash callback)
		r.Eval("C08.a")
		r.Violate("C08.a", "hook-panic:"+classifyErr(hi.err), "slash callback made BeginBlock fail: "+hi.err)
		return
	}
	r.Eval("C17.a")
	cls := "halt:" + hi.where + ":" + classifyErr(hi.err)
	if hi.where == "EndBlock" && strings.Contains(hi.err, "overflow") && r.haltPre != nil && decayOverflowPossible(r.haltPre, r.W.Now) {
		// precondition of the open finding C17-decay-power-overflow, computed from the pre-state
		cls += ":decay-rate-gt-1"
	}
	r.Violate("C17.a", cls, msg)
}

func classifyErr(e string) string {
	e = strings.ToLower(e)
	for _, k := range []string{"divide by zero", "insufficient", "negative", "nil pointer", "not found", "does not exist", "out of range", "overflow", "invalid"} {
		if strings.Contains(e, k) {
			return strings.ReplaceAll(k, " ", "-")
		}
	}
	if len(e) > 40 {
		e = e[:40]
	}
	return e
}

// finishStep takes the post snapshot, collects slashes and logs and calls the monitors.
func (r *Runner) finishStep(st *Step) {
	w := r.W
	st.Post = w.TakeSnap(r.RootCtx)
	st.Logs = w.Log.Drain()
	if st.Res != nil {
		st.Events = st.Res.Events
	} else {
		st.Events = r.lastEvents
	}
	for _, k := range st.Post.DelOrder {
		if _, ok := st.Post.StVals[k.Val]; !ok {
			if !r.StrandedVals[k.Val] {
				r.Probe("lifecycle_alliance_delegation_on_validator_removed_by_staking")
				r.Fault("F10_validator_removed_with_alliance_stake")
			}
			r.StrandedVals[k.Val], r.StrandedDenoms[k.Denom] = true, true
		}
	}
	if st.Pre != nil {
		for v, sv := range st.Post.StVals {
			if pv, ok := st.Pre.StVals[v]; ok && pv.IsBonded() && !sv.IsBonded() && !sv.Jailed {
				r.Probe("lifecycle_validator_left_bonded_set_without_jailing")
			}
		}
		// ... or whose record still held validator shares (rounding dust of positions that have left counts too)
		for v, vi := range st.Pre.ValInfos {
			if _, ok := st.Post.StVals[v]; ok {
				continue
			}
			for _, c := range vi.ValidatorShares {
				if c.Amount.IsPositive() {
					r.StrandedVals[v], r.StrandedDenoms[c.Denom] = true, true
				}
			}
		}
	}
	// reach probes for validator lifecycle states the alliance code meets rarely
	for v, vi := range st.Post.ValInfos {
		sv, ok := st.Post.StVals[v]
		switch {
		case !ok:
			r.Probe("lifecycle_alliance_validator_record_without_staking_validator")
		case !sv.IsBonded() && len(vi.TotalDelegatorShares) > 0:
			r.Probe("lifecycle_alliance_stake_on_non_bonded_validator")
			if sv.Tokens.IsZero() {
				r.Probe("lifecycle_alliance_stake_on_validator_without_tokens")
			}
		}
	}
	// reach probes for counts that default page sizes and loop bounds care about
	if len(st.Post.Dels) > 100 {
		r.Probe("scale_over_100_delegation_records")
	}
	if len(st.Post.UndelQueue) > 100 {
		r.Probe("scale_over_100_unbonding_buckets")
	}
	if len(st.Post.UndelIdx) > 100 {
		perVal := map[string]int{}
		for _, ix := range st.Post.UndelIdx {
			perVal[ix.Val]++
			if perVal[ix.Val] == 101 {
				r.Probe("scale_over_100_unbonding_index_keys_of_one_validator")
			}
		}
	}
	if st.Kind == "end" && st.Pre != nil && len(st.Pre.UndelQueue)-len(st.Post.UndelQueue) > 100 {
		r.Probe("scale_over_100_buckets_matured_in_one_block")
	}
	st.Slashes = r.orderSlashes(newSlashes(st.Pre, st.Post), st.Events)
	for _, so := range st.Slashes {
		r.Fault("slash_reached_hooks")
		switch {
		case st.Kind == "slash":
			r.Fault("F1F2_direct_slash_and_jail")
		case st.Kind == "begin" && r.curBlock != nil && evidenceNames(r, r.curBlock)[so.Val]:
			r.Fault("F1_double_sign_evidence_slash")
		case st.Kind == "begin":
			r.Fault("F2_downtime_slash")
		}
	}
	if st.Kind == "op" && st.Res != nil && st.Res.OK {
		switch k := st.ROp.Op.K; {
		case k == "donate":
			r.Fault("F8_unsolicited_transfer")
		case strings.HasPrefix(k, "gov_"):
			r.Fault("F9_reconfiguration_in_flight")
		case strings.HasPrefix(k, "n_") || k == "create_validator" || k == "unjail":
			r.Fault("F10_validator_set_churn")
		}
	}
	r.StepName = st.Name
	r.Stats.Steps++
	if st.Kind == "op" || st.Kind == "slash" {
		k := st.ROp.Op.K
		r.Stats.OpsByKind[k]++
		out := "ok"
		if st.Res != nil && !st.Res.OK {
			out = "fail"
			r.Stats.OpsFailed++
			if st.Res.OutOfGas {
				out = "oog"
				r.Fault("F3_tx_abort")
			}
		} else {
			r.Stats.OpsOK++
		}
		r.sig(k, out, absClass(st.Post))
		if r.Verbose {
			res := "ok"
			if st.Res != nil && !st.Res.OK {
				res = "ERR " + st.Res.Err
			}
			r.tracef("%s t=%s %s -> %s", st.Name, w.Now.Format(time.RFC3339Nano), st.ROp.Note, res)
		}
	} else {
		r.sig(st.Kind, fmt.Sprint(len(st.Slashes)), absClass(st.Post))
		if r.Verbose {
			r.tracef("%s t=%s slashes=%d", st.Name, w.Now.Format(time.RFC3339Nano), len(st.Slashes))
		}
	}
	if dumpSteps {
		for _, f := range flowsOf(st.Events) {
			r.Trace = append(r.Trace, fmt.Sprintf("    flow %s %s -> %s %s", f.Kind, short(f.From), short(f.To), f.Coins))
		}
		r.Trace = append(r.Trace, st.Post.Summary())
		for _, pk := range st.Post.DelOrder {
			resp, err := r.QS.AllianceDelegationRewards(r.Branch(), &alliancetypes.QueryAllianceDelegationRewardsRequest{DelegatorAddr: pk.Del, ValidatorAddr: pk.Val, Denom: pk.Denom})
			if err != nil {
				r.Trace = append(r.Trace, fmt.Sprintf("    claimable %s: ERR %v", pk, err))
			} else if len(resp.Rewards) > 0 {
				r.Trace = append(r.Trace, fmt.Sprintf("    claimable %s: %s", pk, resp.Rewards))
			}
		}
		for _, v := range st.Post.ValOrder {
			r.Trace = append(r.Trace, fmt.Sprintf("    history %s: %v", short(v), st.Post.ValInfos[v].GlobalRewardHistory))
		}
	}
	for _, m := range r.Mons {
		m.OnStep(r, st)
		if r.failed() {
			return
		}
	}
}

var dumpSteps bool

// absClass is the abstract-state class used in run signatures.
func absClass(s *Snap) string {
	bucket := func(n int) int {
		switch {
		case n <= 2:
			return n
		case n <= 5:
			return 3
		default:
			return 4
		}
	}
	multi := 0
	for _, q := range s.UndelQueue {
		if len(q.Entries) > 1 {
			multi++
		}
	}
	jailed, unb := 0, 0
	for _, v := range s.StVals {
		if v.Jailed {
			jailed++
		}
		if !v.IsBonded() {
			unb++
		}
	}
	f := 0
	if s.Flag {
		f = 1
	}
	return fmt.Sprintf("%d.%d.%d.%d.%d.%d.%d", bucket(len(s.Dels)), bucket(len(s.UndelQueue)), bucket(multi), bucket(len(s.Redels)), bucket(jailed), bucket(unb), f)
}

func newSlashes(pre, post *Snap) []SlashObs {
	seen := map[string]bool{}
	for _, e := range pre.SlashEvents {
		seen[fmt.Sprintf("%s/%d/%d", e.Val, e.Height, e.Period)] = true
	}
	var evs []SlashEv
	for _, e := range post.SlashEvents {
		if !seen[fmt.Sprintf("%s/%d/%d", e.Val, e.Height, e.Period)] {
			evs = append(evs, e)
		}
	}
	sort.SliceStable(evs, func(i, j int) bool {
		if evs[i].Val != evs[j].Val {
			return evs[i].Val < evs[j].Val
		}
		return evs[i].Period < evs[j].Period
	})
	var out []SlashObs
	for _, e := range evs {
		out = append(out, SlashObs{Val: e.Val, Fraction: e.Fraction})
	}
	return out
}

// ---------------------------------------------------------------------------
// op execution
// ---------------------------------------------------------------------------

// deliver runs one message the way baseapp.runTx runs it: on a branch, committed on success,
// discarded on error or panic; a finite gas meter turns the n-th store access into an abort.
func (r *Runner) deliver(gas uint64, f func(ctx sdk.Context) (any, error)) *OpResult {
	res := &OpResult{}
	cctx, write := r.RootCtx.CacheContext()
	em := sdk.NewEventManager()
	cctx = cctx.WithEventManager(em)
	if gas > 0 {
		cctx = cctx.WithGasMeter(storetypes.NewGasMeter(gas))
	} else {
		cctx = cctx.WithGasMeter(storetypes.NewInfiniteGasMeter())
	}
	func() {
		defer func() {
			if rec := recover(); rec != nil {
				res.Panic = true
				switch e := rec.(type) {
				case storetypes.ErrorOutOfGas:
					res.OutOfGas = true
					res.Err = "out of gas: " + e.Descriptor
				case storetypes.ErrorGasOverflow:
					res.OutOfGas = true
					res.Err = "gas overflow: " + e.Descriptor
				default:
					res.Err = fmt.Sprintf("panic: %v", rec)
					res.Stack = string(debug.Stack())
				}
			}
		}()
		resp, err := f(cctx)
		if err != nil {
			res.Err = err.Error()
			return
		}
		res.Resp = resp
		res.OK = true
	}()
	if res.OK {
		write()
		res.Events = em.ABCIEvents()
		// the message router runs handlers under their own event manager and returns the events in the result
		if sr, ok := res.Resp.(*sdk.Result); ok && sr != nil {
			res.Events = append(res.Events, sr.Events...)
		}
	}
	return res
}

func (r *Runner) route(msg sdk.Msg) func(ctx sdk.Context) (any, error) {
	return func(ctx sdk.Context) (any, error) {
		h := r.W.App.MsgServiceRouter().Handler(msg)
		if h == nil {
			return nil, fmt.Errorf("no handler for %T", msg)
		}
		if vb, ok := msg.(sdk.HasValidateBasic); ok {
			if err := vb.ValidateBasic(); err != nil {
				return nil, err
			}
		}
		return h(ctx, msg)
	}
}

func (r *Runner) resolveAmt(a *Amt, ref sdkmath.Int) sdkmath.Int {
	if a == nil {
		return sdkmath.OneInt()
	}
	switch {
	case a.Abs != "":
		i, ok := sdkmath.NewIntFromString(a.Abs)
		if !ok {
			return sdkmath.OneInt()
		}
		return i
	case a.All:
		return ref
	case a.AllPlus != 0:
		return ref.AddRaw(a.AllPlus)
	case a.Pct != 0:
		return ref.MulRaw(int64(a.Pct)).QuoRaw(100)
	}
	return sdkmath.OneInt()
}

func (w *World) denomByIdx(i int) string {
	if i < 0 {
		i = -i
	}
	return AllianceDenoms[i%len(w.Cfg.Assets)]
}

func (w *World) delegatorByIdx(i int) Actor {
	if i < 0 {
		i = -i
	}
	return w.Delegators[i%len(w.Delegators)]
}

func (w *World) nativeByIdx(i int) Actor {
	if i < 0 {
		i = -i
	}
	return w.Natives[i%len(w.Natives)]
}

// ReportedBalance asks the module's own gRPC query for a position's balance.
func (r *Runner) ReportedBalance(ctx sdk.Context, del sdk.AccAddress, val sdk.ValAddress, denom string) (sdkmath.Int, error) {
	resp, err := r.QS.AllianceDelegation(ctx, &alliancetypes.QueryAllianceDelegationRequest{DelegatorAddr: del.String(), ValidatorAddr: val.String(), Denom: denom})
	if err != nil {
		return sdkmath.ZeroInt(), err
	}
	return resp.Delegation.Balance.Amount, nil
}

func (r *Runner) execOp(st *Step, op *Op) {
	w := r.W
	ctx := r.RootCtx
	ro := &ROp{Op: op}
	st.ROp = ro
	var f func(ctx sdk.Context) (any, error)

	switch op.K {
	case "delegate":
		u := w.delegatorByIdx(op.Who)
		va := w.valByIdx(op.Val)
		ro.Del, ro.Val, ro.Denom = u.Addr, va.ValAddr, w.denomByIdx(op.Denom)
		ref := w.App.BankKeeper.GetBalance(ctx, u.Addr, ro.Denom).Amount
		ro.Amount = r.resolveAmt(op.Amt, ref)
		ro.Msg = alliancetypes.NewMsgDelegate(u.Addr.String(), va.ValAddr.String(), coinOrZero(ro.Denom, ro.Amount))
		f = r.routeAlliance(ro)
	case "undelegate":
		u := w.delegatorByIdx(op.Who)
		va := w.valByIdx(op.Val)
		ro.Del, ro.Val, ro.Denom = u.Addr, va.ValAddr, w.denomByIdx(op.Denom)
		ref, _ := r.ReportedBalance(r.Branch(), u.Addr, va.ValAddr, ro.Denom)
		ro.Amount = r.resolveAmt(op.Amt, ref)
		ro.Msg = alliancetypes.NewMsgUndelegate(u.Addr.String(), va.ValAddr.String(), coinOrZero(ro.Denom, ro.Amount))
		f = r.routeAlliance(ro)
	case "redelegate":
		u := w.delegatorByIdx(op.Who)
		va := w.valByIdx(op.Val)
		vb := w.valByIdx(op.Dst)
		ro.Del, ro.Val, ro.Dst, ro.Denom = u.Addr, va.ValAddr, vb.ValAddr, w.denomByIdx(op.Denom)
		ref, _ := r.ReportedBalance(r.Branch(), u.Addr, va.ValAddr, ro.Denom)
		ro.Amount = r.resolveAmt(op.Amt, ref)
		ro.Msg = alliancetypes.NewMsgRedelegate(u.Addr.String(), va.ValAddr.String(), vb.ValAddr.String(), coinOrZero(ro.Denom, ro.Amount))
		f = r.routeAlliance(ro)
	case "claim":
		u := w.delegatorByIdx(op.Who)
		va := w.valByIdx(op.Val)
		ro.Del, ro.Val, ro.Denom = u.Addr, va.ValAddr, w.denomByIdx(op.Denom)
		ro.Msg = alliancetypes.NewMsgClaimDelegationRewards(u.Addr.String(), va.ValAddr.String(), ro.Denom)
		f = r.routeAlliance(ro)
	case "n_delegate":
		u := w.nativeByIdx(op.Who)
		va := w.valByIdx(op.Val)
		if op.Self {
			u = va.Operator
		}
		ro.Del, ro.Val, ro.Denom = u.Addr, va.ValAddr, BondDenom
		ref := w.App.BankKeeper.GetBalance(ctx, u.Addr, BondDenom).Amount
		ro.Amount = r.resolveAmt(op.Amt, ref)
		ro.Msg = stakingtypes.NewMsgDelegate(u.Addr.String(), va.ValAddr.String(), coinOrZero(BondDenom, ro.Amount))
		f = r.route(ro.Msg)
	case "n_undelegate":
		u := w.nativeByIdx(op.Who)
		va := w.valByIdx(op.Val)
		if op.Self {
			u = va.Operator
		}
		ro.Del, ro.Val, ro.Denom = u.Addr, va.ValAddr, BondDenom
		ro.Amount = r.resolveAmt(op.Amt, r.nativeStake(ctx, u.Addr, va.ValAddr))
		ro.Msg = stakingtypes.NewMsgUndelegate(u.Addr.String(), va.ValAddr.String(), coinOrZero(BondDenom, ro.Amount))
		f = r.route(ro.Msg)
	case "n_redelegate":
		u := w.nativeByIdx(op.Who)
		va := w.valByIdx(op.Val)
		if op.Self {
			u = va.Operator
		}
		vb := w.valByIdx(op.Dst)
		ro.Del, ro.Val, ro.Dst, ro.Denom = u.Addr, va.ValAddr, vb.ValAddr, BondDenom
		ro.Amount = r.resolveAmt(op.Amt, r.nativeStake(ctx, u.Addr, va.ValAddr))
		ro.Msg = stakingtypes.NewMsgBeginRedelegate(u.Addr.String(), va.ValAddr.String(), vb.ValAddr.String(), coinOrZero(BondDenom, ro.Amount))
		f = r.route(ro.Msg)
	case "unjail":
		va := w.valByIdx(op.Val)
		ro.Val = va.ValAddr
		ro.Msg = slashingtypes.NewMsgUnjail(va.ValAddr.String())
		f = r.route(ro.Msg)
	case "create_validator":
		va := w.valByIdx(op.Val)
		ro.Val = va.ValAddr
		ro.Amount = r.resolveAmt(op.Amt, sdkmath.NewInt(2_000_000))
		rate := sdkmath.LegacyNewDecWithPrec(5, 2)
		if op.Rate != "" {
			rate = mustDec(op.Rate)
		}
		msg, err := stakingtypes.NewMsgCreateValidator(va.ValAddr.String(), va.ConsPriv.PubKey(), coinOrZero(BondDenom, ro.Amount),
			stakingtypes.Description{Moniker: fmt.Sprintf("val-%d", va.Idx)}, stakingtypes.NewCommissionRates(rate, sdkmath.LegacyOneDec(), sdkmath.LegacyOneDec()), sdkmath.OneInt())
		if err != nil {
			f = func(sdk.Context) (any, error) { return nil, err }
		} else {
			ro.Msg = msg
			f = r.route(msg)
		}
	case "donate":
		ro.Denom = w.donateDenom(op.Denom)
		ro.Amount = r.resolveAmt(op.Amt, w.App.BankKeeper.GetBalance(ctx, w.Third.Addr, ro.Denom).Amount)
		coins := sdk.NewCoins(coinOrZero(ro.Denom, ro.Amount))
		switch op.To {
		case "fee_collector":
			// what the ante handler does with fees
			f = func(c sdk.Context) (any, error) {
				return nil, w.App.BankKeeper.SendCoinsFromAccountToModule(c, w.Third.Addr, "fee_collector", coins)
			}
		case "rewards_pool":
			ro.Msg = banktypes.NewMsgSend(w.Third.Addr, w.RewardsAddr, coins)
			f = r.route(ro.Msg)
		case "user":
			ro.Msg = banktypes.NewMsgSend(w.Third.Addr, w.delegatorByIdx(op.Who).Addr, coins)
			f = r.route(ro.Msg)
		default:
			ro.Msg = banktypes.NewMsgSend(w.Third.Addr, w.ModuleAddr, coins)
			f = r.route(ro.Msg)
		}
	case "gov_create", "gov_update", "gov_delete", "gov_params", "gov_staking_params", "gov_slashing_params":
		f = r.govOp(ro, op)
	default:
		f = func(sdk.Context) (any, error) { return nil, fmt.Errorf("unknown op kind %q", op.K) }
	}
	ro.Note = r.describe(ro)
	st.Res = r.deliver(op.Gas, f)
}

func coinOrZero(denom string, amt sdkmath.Int) sdk.Coin {
	// sdk.NewCoin panics on negative amounts; messages with such amounts are built by hand so
	// that the handler (not the harness) gets to reject them.
	return sdk.Coin{Denom: denom, Amount: amt}
}

func (w *World) donateDenom(i int) string {
	all := append(append([]string{}, AllianceDenoms[:len(w.Cfg.Assets)]...), BondDenom, FeeDenom)
	if i < 0 {
		i = -i
	}
	return all[i%len(all)]
}

func (r *Runner) nativeStake(ctx sdk.Context, del sdk.AccAddress, val sdk.ValAddress) sdkmath.Int {
	d, err := r.W.App.StakingKeeper.GetDelegation(ctx, del, val)
	if err != nil {
		return sdkmath.ZeroInt()
	}
	v, err := r.W.App.StakingKeeper.GetValidator(ctx, val)
	if err != nil {
		return sdkmath.ZeroInt()
	}
	return v.TokensFromShares(d.Shares).TruncateInt()
}

// routeAlliance delivers through the message router (same handler baseapp uses).
func (r *Runner) routeAlliance(ro *ROp) func(ctx sdk.Context) (any, error) {
	return r.route(ro.Msg)
}

func (r *Runner) describe(ro *ROp) string {
	op := ro.Op
	var sb strings.Builder
	sb.WriteString(op.K)
	if ro.Del != nil {
		fmt.Fprintf(&sb, " who=%s", short(ro.Del.String()))
	}
	if ro.Val != nil {
		fmt.Fprintf(&sb, " val=%s", short(ro.Val.String()))
	}
	if ro.Dst != nil {
		fmt.Fprintf(&sb, " dst=%s", short(ro.Dst.String()))
	}
	if ro.Denom != "" {
		fmt.Fprintf(&sb, " denom=%s", ro.Denom)
	}
	if !ro.Amount.IsNil() {
		fmt.Fprintf(&sb, " amt=%s", ro.Amount)
	}
	if op.Gas > 0 {
		fmt.Fprintf(&sb, " gas=%d", op.Gas)
	}
	if len(op.F) > 0 {
		keys := make([]string, 0, len(op.F))
		for k := range op.F {
			keys = append(keys, k)
		}
		sort.Strings(keys)
		for _, k := range keys {
			fmt.Fprintf(&sb, " %s=%s", k, op.F[k])
		}
	}
	if op.Authority != "" {
		fmt.Fprintf(&sb, " auth=%s legacy=%v", op.Authority, op.Legacy)
	}
	return sb.String()
}

// ---------------------------------------------------------------------------
// governance ops
// ---------------------------------------------------------------------------

func decField(f map[string]string, k, def string) sdkmath.LegacyDec {
	v, ok := f[k]
	if !ok {
		v = def
	}
	if v == "nil" {
		return sdkmath.LegacyDec{}
	}
	d, err := sdkmath.LegacyNewDecFromStr(v)
	if err != nil {
		return sdkmath.LegacyDec{}
	}
	return d
}

func durField(f map[string]string, k string, def int64) time.Duration {
	v, ok := f[k]
	if !ok {
		return time.Duration(def)
	}
	n, err := strconv.ParseInt(v, 10, 64)
	if err != nil {
		return time.Duration(def)
	}
	return time.Duration(n)
}

func (r *Runner) authority(op *Op) string {
	w := r.W
	switch op.Authority {
	case "", "gov":
		return w.GovAddr.String()
	case "user":
		return w.delegatorByIdx(op.Who).Addr.String()
	case "module":
		return w.ModuleAddr.String()
	case "third":
		return w.Third.Addr.String()
	case "empty":
		return ""
	default:
		return "not-an-address"
	}
}

func (r *Runner) govDenom(op *Op) string {
	if d, ok := op.F["denom"]; ok {
		if n, err := strconv.Atoi(d); err == nil {
			return r.W.denomByIdx(n)
		}
		return d
	}
	return r.W.denomByIdx(op.Denom)
}

func (r *Runner) govOp(ro *ROp, op *Op) func(ctx sdk.Context) (any, error) {
	w := r.W
	auth := r.authority(op)
	denom := r.govDenom(op)
	ro.Denom = denom
	f := op.F
	if f == nil {
		f = map[string]string{}
	}
	legacy := func(content govv1beta1.Content) func(ctx sdk.Context) (any, error) {
		return func(ctx sdk.Context) (any, error) {
			if op.Basic {
				if err := content.ValidateBasic(); err != nil {
					return nil, err
				}
			}
			return nil, alliancemodule.NewAllianceProposalHandler(w.App.AllianceKeeper)(ctx, content)
		}
	}
	switch op.K {
	case "gov_create":
		weight, min, max := decField(f, "weight", "1"), decField(f, "min", "0"), decField(f, "max", "5")
		take, crate, cint := decField(f, "take", "0"), decField(f, "crate", "1"), durField(f, "cintvl", 0)
		if op.Legacy {
			return legacy(&alliancetypes.MsgCreateAllianceProposal{Title: "t", Description: "d", Denom: denom, RewardWeight: weight, TakeRate: take,
				RewardChangeRate: crate, RewardChangeInterval: cint, RewardWeightRange: alliancetypes.RewardWeightRange{Min: min, Max: max}})
		}
		ro.Msg = &alliancetypes.MsgCreateAlliance{Authority: auth, Denom: denom, RewardWeight: weight, TakeRate: take, RewardChangeRate: crate,
			RewardChangeInterval: cint, RewardWeightRange: alliancetypes.RewardWeightRange{Min: min, Max: max}}
		return r.route(ro.Msg)
	case "gov_update":
		weight, min, max := decField(f, "weight", "1"), decField(f, "min", "0"), decField(f, "max", "5")
		take, crate, cint := decField(f, "take", "0"), decField(f, "crate", "1"), durField(f, "cintvl", 0)
		if op.Legacy {
			return legacy(&alliancetypes.MsgUpdateAllianceProposal{Title: "t", Description: "d", Denom: denom, RewardWeight: weight, TakeRate: take,
				RewardChangeRate: crate, RewardChangeInterval: cint, RewardWeightRange: alliancetypes.RewardWeightRange{Min: min, Max: max}})
		}
		ro.Msg = &alliancetypes.MsgUpdateAlliance{Authority: auth, Denom: denom, RewardWeight: weight, TakeRate: take, RewardChangeRate: crate,
			RewardChangeInterval: cint, RewardWeightRange: alliancetypes.RewardWeightRange{Min: min, Max: max}}
		return r.route(ro.Msg)
	case "gov_delete":
		if op.Legacy {
			return legacy(&alliancetypes.MsgDeleteAllianceProposal{Title: "t", Description: "d", Denom: denom})
		}
		ro.Msg = &alliancetypes.MsgDeleteAlliance{Authority: auth, Denom: denom}
		return r.route(ro.Msg)
	case "gov_params":
		return func(ctx sdk.Context) (any, error) {
			cur := w.App.AllianceKeeper.GetParams(ctx)
			p := alliancetypes.Params{
				RewardDelayTime:       durField(f, "delay", int64(cur.RewardDelayTime)),
				TakeRateClaimInterval: durField(f, "intvl", int64(cur.TakeRateClaimInterval)),
				LastTakeRateClaimTime: cur.LastTakeRateClaimTime,
			}
			if v, ok := f["last"]; ok {
				switch v {
				case "zero":
					p.LastTakeRateClaimTime = time.Time{}
				case "keep":
				default:
					if n, err := strconv.ParseInt(v, 10, 64); err == nil {
						p.LastTakeRateClaimTime = ctx.BlockTime().Add(time.Duration(n))
					}
				}
			}
			msg := &alliancetypes.MsgUpdateParams{Authority: auth, Params: p}
			ro.Msg = msg
			return r.route(msg)(ctx)
		}
	case "gov_staking_params":
		return func(ctx sdk.Context) (any, error) {
			p, err := w.App.StakingKeeper.GetParams(ctx)
			if err != nil {
				return nil, err
			}
			p.UnbondingTime = durField(f, "unbonding_ns", int64(p.UnbondingTime))
			if v, ok := f["max_validators"]; ok {
				if n, err := strconv.Atoi(v); err == nil && n > 0 {
					p.MaxValidators = uint32(n)
				}
			}
			msg := &stakingtypes.MsgUpdateParams{Authority: auth, Params: p}
			ro.Msg = msg
			return r.route(msg)(ctx)
		}
	case "gov_slashing_params":
		return func(ctx sdk.Context) (any, error) {
			p, err := w.App.SlashingKeeper.GetParams(ctx)
			if err != nil {
				return nil, err
			}
			if v, ok := f["downtime"]; ok {
				p.SlashFractionDowntime = mustDec(v)
			}
			if v, ok := f["double"]; ok {
				p.SlashFractionDoubleSign = mustDec(v)
			}
			msg := &slashingtypes.MsgUpdateParams{Authority: auth, Params: p}
			ro.Msg = msg
			return r.route(msg)(ctx)
		}
	}
	return func(sdk.Context) (any, error) { return nil, fmt.Errorf("bad gov op") }
}

// ---------------------------------------------------------------------------
// direct slash: exactly what x/slashing and x/evidence do (Slash, then Jail)
// ---------------------------------------------------------------------------

func (r *Runner) execSlashDirect(st *Step) {
	w := r.W
	op := st.ROp.Op
	va := w.valByIdx(op.Val)
	st.ROp.Val = va.ValAddr
	frac, err := sdkmath.LegacyNewDecFromStr(op.Fraction)
	if err != nil {
		frac = sdkmath.LegacyNewDecWithPrec(5, 2)
	}
	age := op.Age
	ih := w.Height - age
	if ih < 1 {
		ih = 1
	}
	if ih > w.Height {
		ih = w.Height
	}
	st.ROp.Note = fmt.Sprintf("slash_direct val=%s f=%s infraction_height=%d", short(va.ValAddr.String()), frac, ih)
	st.Res = r.deliver(0, func(ctx sdk.Context) (any, error) {
		v, err := w.App.StakingKeeper.GetValidator(ctx, va.ValAddr)
		if err != nil {
			return nil, err
		}
		if v.IsUnbonded() {
			return nil, fmt.Errorf("validator unbonded: x/slashing and x/evidence never slash it")
		}
		power := v.ConsensusPower(sdk.DefaultPowerReduction)
		if _, err := w.App.StakingKeeper.Slash(ctx, va.ConsAddr, ih, power, frac); err != nil {
			return nil, err
		}
		if !v.IsJailed() {
			if err := w.App.SlashingKeeper.Jail(ctx, va.ConsAddr); err != nil {
				return nil, err
			}
			// jail period as x/slashing does for downtime
			si, err := w.App.SlashingKeeper.GetValidatorSigningInfo(ctx, va.ConsAddr)
			if err == nil {
				jd, _ := w.App.SlashingKeeper.DowntimeJailDuration(ctx)
				si.JailedUntil = ctx.BlockTime().Add(jd)
				_ = w.App.SlashingKeeper.SetValidatorSigningInfo(ctx, va.ConsAddr, si)
			}
		}
		return nil, nil
	})
}

var _ = codectypes.NewAnyWithValue

// decayOverflowPossible: some asset has RewardChangeRate > 1 and so many whole change intervals
// have elapsed that rate^n exceeds what an 18-digit LegacyDec can hold (about 2^255).
func decayOverflowPossible(pre *Snap, now time.Time) bool {
	for _, a := range pre.Assets {
		if a.RewardChangeInterval <= 0 || !a.RewardChangeRate.GT(sdkmath.LegacyOneDec()) {
			continue
		}
		n := float64(now.Sub(a.LastRewardChangeTime) / a.RewardChangeInterval)
		rate, _ := a.RewardChangeRate.Float64()
		if n*math.Log2(rate) >= 190 {
			return true
		}
	}
	return false
}

// orderSlashes puts the slashes of one step into the order in which they happened, taken from the
// "slash" events x/slashing emits (address = consensus address). Falls back to the given order.
func (r *Runner) orderSlashes(obs []SlashObs, events []abci.Event) []SlashObs {
	if len(obs) < 2 {
		return obs
	}
	var seq []string
	for _, e := range events {
		if e.Type != "slash" {
			continue
		}
		addr := attr(e, "address")
		if addr == "" || attr(e, "reason") == "" {
			continue
		}
		for _, va := range r.W.Vals {
			if va.ConsAddr.String() == addr {
				seq = append(seq, va.ValAddr.String())
			}
		}
	}
	rest := append([]SlashObs{}, obs...)
	var out []SlashObs
	for _, v := range seq {
		for i, o := range rest {
			if o.Val == v {
				out = append(out, o)
				rest = append(rest[:i:i], rest[i+1:]...)
				break
			}
		}
	}
	return append(out, rest...)
}

func (r *Runner) storeDigestsAt() map[string]string { return r.storeDigests() }

func evidenceNames(r *Runner, b *Block) map[string]bool {
	out := map[string]bool{}
	for _, e := range b.Evidence {
		out[r.W.valByIdx(e.Val).ValAddr.String()] = true
	}
	return out
}
