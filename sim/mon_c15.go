package main

import (
	"fmt"
	"math/big"
	"sort"
	"strings"

	sdkmath "cosmossdk.io/math"
	sdk "github.com/cosmos/cosmos-sdk/types"

	alliancetypes "github.com/terra-money/alliance/x/alliance/types"
)

// C15 redelegation: value-preserving move, onward hop blocked until maturity.
type monC15 struct {
	L    Ledger
	dead bool
}

func newMonC15() *monC15           { return &monC15{} }
func (m *monC15) Name() string     { return "C15" }
func (m *monC15) Finish(r *Runner) {}

func (m *monC15) pendingInto(del, val, denom string) *REntry {
	for _, e := range m.L.PendingR() {
		if e.Del == del && e.Dst == val && e.Denom == denom {
			return e
		}
	}
	return nil
}

func (m *monC15) OnStep(r *Runner, st *Step) {
	if m.dead {
		return
	}
	pre, post := st.Pre, st.Post
	if hookFailed(st) {
		m.dead = true
		return
	}
	if st.Kind == "op" && st.ROp.Op.K == "redelegate" {
		ro := st.ROp
		del, src, dst := ro.Del.String(), ro.Val.String(), ro.Dst.String()
		// (c) onward hop blocked while an entry into the source is pending
		if e := m.pendingInto(del, src, ro.Denom); e != nil {
			r.Eval("C15.c")
			r.Probe("c15_hop_attempt_while_pending")
			r.Nontrivial()
			if st.Res.OK {
				r.Violate("C15.c", "transitive-hop-allowed", fmt.Sprintf("redelegation of %s out of %s succeeded while an entry into it is pending until %s (now %s)", ro.Denom, short(src), e.Completion, post.Time))
				return
			}
		}
		if st.Res.OK {
			r.Eval("C15.a")
			r.Nontrivial()
			amt := ratInt(ro.Amount)
			ps := PosKey{Del: del, Val: src, Denom: ro.Denom}
			pd := PosKey{Del: del, Val: dst, Denom: ro.Denom}
			ds := rsub(pre.PosValue(ps), post.PosValue(ps))
			dd := rsub(post.PosValue(pd), pre.PosValue(pd))
			ts := tolMax(pre, post, src, ro.Denom, amt)
			td := tolMax(pre, post, dst, ro.Denom, amt)
			if pre.Assets[ro.Denom].TotalValidatorShares.IsZero() || post.Assets[ro.Denom].TotalValidatorShares.IsZero() {
				// degenerate asset: staked total without any validator shares (the only validator holding it was slashed by 100%)
				r.Probe("c15_degenerate_asset_without_shares")
				m.L.OnRedelegate(st)
				return
			}
			if !within(ds, amt, ts) {
				r.Violate("C15.a", "source-delta", fmt.Sprintf("redelegate %s: source position changed by -%s (tol %s)", ro.Amount, rstr(ds), rstr(ts)))
				return
			}
			if !within(dd, amt, td) {
				cls := "destination-delta"
				// precondition of the open finding: the destination validator held validator shares but no
				// delegator shares (orphaned value); the newcomer may capture at most that value
				orphan := orphanedValue(pre, dst, ro.Denom)
				if orphan.Sign() > 0 && dd.Cmp(amt) > 0 && rsub(dd, amt).Cmp(radd(orphan, td)) <= 0 {
					cls = "destination-captures-orphaned-value"
				}
				r.Violate("C15.a", cls, fmt.Sprintf("redelegate %s: destination position changed by +%s (tol %s, orphaned value on destination %s)", ro.Amount, rstr(dd), rstr(td), rstr(orphan)))
				if r.failed() {
					return
				}
			}
			if _, ok := pre.Dels[pd]; ok {
				r.Probe("c15_into_existing_position")
			} else {
				r.Probe("c15_into_new_position")
			}
			if _, ok := post.Dels[ps]; !ok {
				r.Probe("c15_full_balance")
			}
			// staked total and custody unchanged, nothing paid out in the asset's denom
			if !pre.Assets[ro.Denom].TotalTokens.Equal(post.Assets[ro.Denom].TotalTokens) {
				r.Violate("C15.a", "total-tokens-changed", fmt.Sprintf("staked total %s -> %s", pre.Assets[ro.Denom].TotalTokens, post.Assets[ro.Denom].TotalTokens))
				return
			}
			fl := flowsOf(st.Events)
			mod, rew, dis := r.W.ModuleAddr.String(), r.W.RewardsAddr.String(), r.W.DistrAddr.String()
			for i := range r.W.Cfg.Assets {
				d := AllianceDenoms[i]
				// custody may only change by reward coins passing through (withdrawn from x/distribution, forwarded to the pool)
				// (or sent back to the fee collector when they can be credited to nobody)
				wantCustody := netTransfer(fl, dis, mod, d).Sub(netTransfer(fl, mod, rew, d)).Sub(returnedRewards(r, st.Events).AmountOf(d))
				if got := post.BalOf(r.W.ModuleAddr, d).Sub(pre.BalOf(r.W.ModuleAddr, d)); !got.Equal(wantCustody) {
					r.Violate("C15.a", "custody-changed", fmt.Sprintf("custody of %s changed by %s during a redelegation (reward pass-through accounts for %s)", d, got, wantCustody))
					return
				}
				// the delegator receives nothing but reward-pool payouts
				wantUser := netTransfer(fl, rew, del, d)
				if got := post.BalOf(ro.Del, d).Sub(pre.BalOf(ro.Del, d)); !got.Equal(wantUser) {
					r.Violate("C15.a", "paid-out", fmt.Sprintf("delegator balance of %s changed by %s during a redelegation (reward payouts account for %s)", d, got, wantUser))
					return
				}
			}
			e := m.L.OnRedelegate(st)
			same := 0
			for _, x := range m.L.PendingR() {
				if x.Del == e.Del && x.Dst == e.Dst && x.Denom == e.Denom && x.Completion.Equal(e.Completion) {
					same++
					if x.Src != e.Src {
						r.Probe("c15_fan_in_same_block")
					}
				}
			}
			if same > 1 {
				r.Probe("c15_repeated_same_block")
			}
			// (c) probe: the onward hop out of the destination is blocked right now
			r.Eval("C15.c")
			if ok, errs := m.tryHop(r, ro.Del, ro.Dst, ro.Val, ro.Denom); ok {
				r.Violate("C15.c", "transitive-hop-allowed", fmt.Sprintf("right after redelegating into %s the same delegator can redelegate %s out of it", short(dst), ro.Denom))
				return
			} else if !strings.Contains(errs, "redelegation to this validator already in progress") {
				r.Probe("c15_hop_blocked_by_other_error")
			}
		}
	}
	if st.Kind == "end" {
		matured := m.L.MatureRedelegations(post.Time)
		for _, e := range matured {
			r.Probe("c15_matured")
			if post.Time.Sub(e.Completion) <= 2 {
				r.Probe("c15_matured_at_boundary")
			}
			// (d) the restriction is lifted: a hop out of the destination no longer fails as transitive
			if m.pendingInto(e.Del, e.Dst, e.Denom) != nil {
				continue
			}
			del, _ := sdk.AccAddressFromBech32(e.Del)
			dst, _ := sdk.ValAddressFromBech32(e.Dst)
			src, _ := sdk.ValAddressFromBech32(e.Src)
			r.Eval("C15.d")
			if ok, errs := m.tryHop(r, del, dst, src, e.Denom); !ok && strings.Contains(errs, "redelegation to this validator already in progress") {
				r.Violate("C15.d", "hop-still-blocked", fmt.Sprintf("entry into %s matured at %s (now %s) but the onward hop is still refused as transitive", short(e.Dst), e.Completion, post.Time))
				return
			}
		}
		for _, e := range m.L.PendingR() {
			if e.Completion.Equal(post.Time) {
				r.Probe("c15_completion_equals_blocktime")
			}
		}
	}
	// (b)(d) the three stores agree with the ledger, in both directions, after every step
	r.Eval("C15.b")
	if msg, cls := m.crossCheck(post); msg != "" {
		r.Violate("C15.b", cls+":"+st.Kind, msg)
	}
}

// tryHop attempts a 1-unit redelegation from `from` to `to` on a discarded branch.
func (m *monC15) tryHop(r *Runner, del sdk.AccAddress, from, to sdk.ValAddress, denom string) (bool, string) {
	ctx := r.Branch()
	ok := false
	errs := ""
	func() {
		defer func() {
			if rec := recover(); rec != nil {
				errs = fmt.Sprintf("panic: %v", rec)
			}
		}()
		_, err := r.MS.Redelegate(ctx, alliancetypes.NewMsgRedelegate(del.String(), from.String(), to.String(), sdk.NewCoin(denom, sdkmath.OneInt())))
		if err != nil {
			errs = err.Error()
		} else {
			ok = true
		}
	}()
	return ok, errs
}

func (m *monC15) crossCheck(s *Snap) (string, string) {
	type rk struct {
		del, denom, dst string
		t               int64
	}
	wantRec := map[rk]*big.Int{}
	wantIdx := map[string]bool{}
	wantQ := map[string]int{}
	for _, e := range m.L.PendingR() {
		k := rk{e.Del, e.Denom, e.Dst, e.Completion.UnixNano()}
		if wantRec[k] == nil {
			wantRec[k] = new(big.Int)
		}
		wantRec[k].Add(wantRec[k], e.Amount.BigInt())
		wantIdx[fmt.Sprintf("%s|%d|%s|%s|%s", e.Src, e.Completion.UnixNano(), e.Denom, e.Dst, e.Del)] = true
		wantQ[fmt.Sprintf("%d|%s|%s|%s|%s|%s", e.Completion.UnixNano(), e.Del, e.Src, e.Dst, e.Denom, e.Amount)]++
	}
	haveRec := map[rk]bool{}
	for _, x := range s.Redels {
		k := rk{x.Del, x.Denom, x.Dst, x.Completion.UnixNano()}
		haveRec[k] = true
		w, ok := wantRec[k]
		if !ok {
			return fmt.Sprintf("redelegation record without a pending redelegation: %s %s -> %s completion %s", short(x.Del), x.Denom, short(x.Dst), x.Completion), "record-orphan"
		}
		if w.Cmp(x.Rec.Balance.Amount.BigInt()) != 0 {
			return fmt.Sprintf("redelegation record balance %s, redelegated %s", x.Rec.Balance.Amount, w), "record-balance"
		}
	}
	var cands []string
	for k := range wantRec {
		if !haveRec[k] {
			cands = append(cands, fmt.Sprintf("pending redelegation of %s into %s (completion %d) has no record", short(k.del), short(k.dst), k.t))
		}
	}
	if len(cands) > 0 {
		sort.Strings(cands)
		return cands[0], "record-missing"
	}
	haveIdx := map[string]bool{}
	for _, x := range s.RedelIdx {
		k := fmt.Sprintf("%s|%d|%s|%s|%s", x.Src, x.Completion.UnixNano(), x.Denom, x.Dst, x.Del)
		haveIdx[k] = true
		if !wantIdx[k] {
			return "per-source index key without a pending redelegation: " + k, "index-orphan"
		}
	}
	for _, k := range sortedKeys(wantIdx) {
		if !haveIdx[k] {
			return "pending redelegation without per-source index key: " + k, "index-missing"
		}
	}
	haveQ := map[string]int{}
	for _, q := range s.RedelQueue {
		for _, e := range q.Entries {
			haveQ[fmt.Sprintf("%d|%s|%s|%s|%s|%s", q.Completion.UnixNano(), e.DelegatorAddress, e.SrcValidatorAddress, e.DstValidatorAddress, e.Balance.Denom, e.Balance.Amount)]++
		}
	}
	for k, n := range wantQ {
		if haveQ[k] != n {
			cands = append(cands, fmt.Sprintf("time-queue holds %d copies of %s, expected %d", haveQ[k], k, n))
		}
	}
	for k, n := range haveQ {
		if wantQ[k] != n {
			cands = append(cands, fmt.Sprintf("time-queue holds %d copies of %s, expected %d", n, k, wantQ[k]))
		}
	}
	if len(cands) > 0 {
		sort.Strings(cands)
		return cands[0], "queue-mismatch"
	}
	return "", ""
}

// orphanedValue is the token value held by validator shares of val in denom while the validator
// has no delegator shares at all (nobody owns it).
func orphanedValue(s *Snap, val, denom string) *big.Rat {
	vi, ok := s.ValInfos[val]
	if !ok {
		return new(big.Rat)
	}
	if !decCoinsAmount(vi.TotalDelegatorShares, denom).IsZero() {
		return new(big.Rat)
	}
	return s.ValTokens(val, denom)
}
