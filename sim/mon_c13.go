package main

import (
	"fmt"
	"math/big"
	"os"
	"sort"

	abci "github.com/cometbft/cometbft/abci/types"
	sdk "github.com/cosmos/cosmos-sdk/types"

	alliancetypes "github.com/terra-money/alliance/x/alliance/types"
)

// C13 reward entitlement: pro-rata, not retroactive, idempotent, stake-neutral.
//
// Eager reference model in exact rationals: every time the module receives a validator's rewards
// (a settlement, observed through x/distribution's withdraw_rewards event followed by the
// forwarding transfer into the rewards pool) the amount is credited to per-position ledgers using
// the state before the step: across started assets on the validator in proportion to
// rewardWeight x tokens/total, within an asset in proportion to position value.
type monC13 struct {
	ledger map[PosKey]map[string]*big.Rat // position -> reward denom -> entitlement
	res    map[PosKey]map[string]*big.Rat // accumulated 18-digit index resolution per position/denom
	segs   map[PosKey]int                 // settlements since the last claim (one truncation each at most)
	vmin   map[PosKey]*big.Rat            // smallest and largest value of the position since it last claimed, while
	vmax   map[PosKey]*big.Rat            // it had something accrued
	dead   bool
}

func newMonC13() *monC13 {
	return &monC13{ledger: map[PosKey]map[string]*big.Rat{}, res: map[PosKey]map[string]*big.Rat{}, segs: map[PosKey]int{}, vmin: map[PosKey]*big.Rat{}, vmax: map[PosKey]*big.Rat{}}
}
func (m *monC13) Name() string     { return "C13" }
func (m *monC13) Finish(r *Runner) {}

type settlement struct {
	val   string
	coins sdk.Coins
}

// settlementsOf extracts (validator, coins) pairs that were withdrawn for the module account, in order: forwarded
// to the rewards pool (settled), sent back to the fee collector because nobody can be credited (returned), or
// neither (residue: they stay in the custody account).
func settlementsOf(r *Runner, events []abci.Event) (settled []settlement, residue []settlement) {
	settled, residue, _ = settlementsOf3(r, events)
	return
}

func settlementsOf3(r *Runner, events []abci.Event) (settled, residue, returned []settlement) {
	mod, pool, fee := r.W.ModuleAddr.String(), r.W.RewardsAddr.String(), r.W.FeeCollector.String()
	var pending *settlement
	for _, e := range events {
		switch e.Type {
		case "withdraw_rewards":
			if attr(e, "delegator") != mod {
				continue
			}
			if pending != nil && !pending.coins.IsZero() {
				residue = append(residue, *pending)
			}
			c, err := sdk.ParseCoinsNormalized(attr(e, "amount"))
			if err != nil {
				c = sdk.Coins{}
			}
			pending = &settlement{val: attr(e, "validator"), coins: c}
		case "transfer":
			if pending == nil || attr(e, "sender") != mod || (attr(e, "recipient") != pool && attr(e, "recipient") != fee) {
				continue
			}
			// the forward may come in one piece or in several (per denomination, or part to the pool and part back
			// to the fee collector): every piece that fits into what is still pending counts
			c, err := sdk.ParseCoinsNormalized(attr(e, "amount"))
			if err == nil && !c.IsZero() && c.IsAllLTE(pending.coins) {
				piece := settlement{val: pending.val, coins: c}
				if attr(e, "recipient") == pool {
					settled = append(settled, piece)
				} else {
					returned = append(returned, piece)
				}
				pending.coins = pending.coins.Sub(c...)
				if pending.coins.IsZero() {
					pending = nil
				}
			}
		}
	}
	if pending != nil && !pending.coins.IsZero() {
		residue = append(residue, *pending)
	}
	return
}

// returnedRewards sums, per denom, the rewards that went straight back to the fee collector in this step.
func returnedRewards(r *Runner, events []abci.Event) sdk.Coins {
	_, _, ret := settlementsOf3(r, events)
	out := sdk.NewCoins()
	for _, s := range ret {
		out = out.Add(s.coins...)
	}
	return out
}

func (m *monC13) credit(p PosKey, denom string, amt, res *big.Rat) {
	if m.ledger[p] == nil {
		m.ledger[p] = map[string]*big.Rat{}
		m.res[p] = map[string]*big.Rat{}
	}
	m.ledger[p][denom] = radd(getR(m.ledger[p], denom), amt)
	m.res[p][denom] = radd(getR(m.res[p], denom), res)
}

// settle credits one settlement using the pre-step state.
func (m *monC13) settle(r *Runner, pre *Snap, st settlement) {
	type w struct {
		denom string
		wt    *big.Rat
	}
	var ws []w
	total := new(big.Rat)
	for _, d := range pre.AssetOrder {
		a := pre.Assets[d]
		if a.TotalTokens.IsZero() || pre.Time.Before(a.RewardStartTime) {
			continue
		}
		K := pre.ValTokens(st.val, d)
		if K.Sign() == 0 {
			continue
		}
		x := rquo(rmul(ratDec(a.RewardWeight), K), ratInt(a.TotalTokens))
		ws = append(ws, w{d, x})
		total = radd(total, x)
	}
	if total.Sign() == 0 {
		return
	}
	if len(ws) > 1 {
		r.Probe("c13_two_assets_on_one_validator")
	}
	if os.Getenv("VERIF_C13_DEBUG") != "" {
		for _, x := range ws {
			a := pre.Assets[x.denom]
			fmt.Fprintf(os.Stderr, "C13DEBUG   weights at %s: asset %s weight %s tokens-on-validator %s total %s -> %s\n", pre.Time.Format("15:04:05.000"), x.denom, a.RewardWeight, rstr(pre.ValTokens(st.val, x.denom)), a.TotalTokens, x.wt.FloatString(24))
		}
	}
	ulp := big.NewRat(1, 1_000_000_000_000_000_000)
	for _, x := range ws {
		share := rquo(x.wt, total)
		K := pre.ValTokens(st.val, x.denom)
		for _, p := range pre.DelOrder {
			if p.Val != st.val || p.Denom != x.denom {
				continue
			}
			v := pre.PosValue(p)
			if v.Sign() == 0 {
				continue
			}
			m.segs[p]++
			for _, c := range st.coins {
				amt := rmul(rmul(ratInt(c.Amount), share), rquo(v, K))
				// index resolution: the per-token index and the normalised weight are rounded at 10^-18
				res := radd(rmul(v, ulp), rmul(ratInt(c.Amount), rmul(ulp, big.NewRat(4, 1))))
				// the staked reward weights themselves (rewardWeight x tokens / total) are 18-digit numbers (QuoInt
				// truncates): when they are only a few ulps large - a weight that decayed to 2 x 10^-18 - the split
				// between the assets is arbitrary within n ulps of their sum
				wres := rquo(rmul(ulp, big.NewRat(int64(2*len(ws)), 1)), total)
				if wres.Cmp(big.NewRat(1, 1)) > 0 {
					wres = big.NewRat(1, 1)
				}
				res = radd(res, rmul(ratInt(c.Amount), wres))
				m.credit(p, c.Denom, amt, res)
				if os.Getenv("VERIF_C13_DEBUG") != "" {
					fmt.Fprintf(os.Stderr, "C13DEBUG settle %s %s: %s gets %s of %s (asset share %s, value %s of %s)\n", short(st.val), c.Denom, p, rstr(amt), c.Amount, rstr(share), rstr(v), rstr(K))
				}
			}
		}
	}
}

func (m *monC13) claimedPositions(st *Step) []PosKey {
	if st.Kind != "op" || !st.Res.OK {
		return nil
	}
	ro := st.ROp
	pre := st.Pre
	started := func(d string) bool {
		a, ok := pre.Assets[d]
		return ok && !pre.Time.Before(a.RewardStartTime)
	}
	var out []PosKey
	add := func(p PosKey) {
		if _, ok := pre.Dels[p]; ok && started(p.Denom) {
			out = append(out, p)
		}
	}
	switch ro.Op.K {
	case "claim", "undelegate":
		add(PosKey{ro.Del.String(), ro.Val.String(), ro.Denom})
	case "delegate":
		add(PosKey{ro.Del.String(), ro.Val.String(), ro.Denom})
	case "redelegate":
		add(PosKey{ro.Del.String(), ro.Val.String(), ro.Denom})
		add(PosKey{ro.Del.String(), ro.Dst.String(), ro.Denom})
	}
	return out
}

func (m *monC13) probeClaim(r *Runner, p PosKey) (sdk.Coins, bool) {
	var coins sdk.Coins
	ok, _ := tryMsg(r, func(ctx sdk.Context) error {
		resp, err := r.QS.AllianceDelegationRewards(ctx, &alliancetypes.QueryAllianceDelegationRewardsRequest{DelegatorAddr: p.Del, ValidatorAddr: p.Val, Denom: p.Denom})
		if err != nil {
			return err
		}
		coins = resp.Rewards
		return nil
	})
	return coins, ok
}

func (m *monC13) OnStep(r *Runner, st *Step) {
	if m.dead {
		return
	}
	pre, post := st.Pre, st.Post
	for _, so := range st.Slashes {
		if so.Fraction.IsPositive() {
			// value-changing event between accrual and claim: C12's territory; the exact model stops here
			m.dead = true
			r.Probe("c13_run_abandoned_after_slash")
			return
		}
		r.Probe("c13_jailed_without_slash")
	}
	for d, a := range pre.Assets {
		if pa, ok := post.Assets[d]; ok && st.Kind == "end" && pa.TotalTokens.LT(a.TotalTokens) {
			m.dead = true
			r.Probe("c13_run_abandoned_after_take_rate")
			return
		}
	}
	// value range of every position that carries an accrued entitlement (before this step's claims are judged)
	for p := range m.ledger {
		for _, sn := range []*Snap{pre, post} {
			if _, ok := sn.Dels[p]; !ok {
				continue
			}
			v := sn.PosValue(p)
			if cur, ok := m.vmin[p]; !ok || v.Cmp(cur) < 0 {
				m.vmin[p] = v
			}
			if cur, ok := m.vmax[p]; !ok || v.Cmp(cur) > 0 {
				m.vmax[p] = v
			}
		}
	}
	settled, _ := settlementsOf(r, st.Events)
	for _, s := range settled {
		if !s.coins.IsZero() {
			r.Probe("c13_settlement")
			m.settle(r, pre, s)
			if fullySlashedAsset(pre) || fullySlashedAsset(post) {
				r.Probe("c13_settlement_with_asset_without_validator_shares")
			}
		}
	}
	// payouts of this step: rewards pool -> delegator
	pool := r.W.RewardsAddr.String()
	paid := map[string]sdk.Coins{}
	for _, f := range flowsOf(st.Events) {
		if f.Kind == "transfer" && f.From == pool {
			paid[f.To] = paid[f.To].Add(f.Coins...)
		}
	}
	claimed := m.claimedPositions(st)
	if os.Getenv("VERIF_C13_DEBUG") != "" {
		fmt.Fprintf(os.Stderr, "C13DEBUG step %s claimed=%v paid=%v\n", st.Name, claimed, paid)
	}
	if len(claimed) > 0 {
		r.Eval("C13.a")
		r.Nontrivial()
		del := claimed[0].Del
		// expected = sum over the positions claimed in this step
		want := map[string]*big.Rat{}
		res := map[string]*big.Rat{}
		segs := 0
		tokenRound := map[string]*big.Rat{}
		fracRound := map[string]*big.Rat{}
		revalued := map[string]*big.Rat{}
		for _, p := range claimed {
			v := pre.PosValue(p)
			// relative error of the module's two 18-digit quotients behind a position's token value:
			// validatorShares/totalShares and delegationShares/totalDelegatorShares
			relErr := new(big.Rat)
			if a, ok := pre.Assets[p.Denom]; ok && a.TotalValidatorShares.IsPositive() {
				if vs := ratDec(decCoinsAmount(pre.ValInfos[p.Val].ValidatorShares, p.Denom)); vs.Sign() > 0 {
					relErr = rmul(rquo(ratDec(a.TotalValidatorShares), vs), big.NewRat(8, 1_000_000_000_000_000_000))
				}
			}
			if sh := ratDec(pre.Dels[p].Shares); sh.Sign() > 0 {
				D := ratDec(decCoinsAmount(pre.ValInfos[p.Val].TotalDelegatorShares, p.Denom))
				relErr = radd(relErr, rmul(rquo(D, sh), big.NewRat(8, 1_000_000_000_000_000_000)))
			}
			if relErr.Cmp(big.NewRat(1, 1_000_000)) > 0 {
				r.Probe("c13_share_fraction_below_resolution")
			}
			for d, x := range m.ledger[p] {
				want[d] = radd(getR(want, d), x)
				res[d] = radd(getR(res, d), getR(m.res[p], d))
				if v.Sign() > 0 {
					tokenRound[d] = radd(getR(tokenRound, d), radd(rquo(x, v), big.NewRat(1, 1)))
				}
				fracRound[d] = radd(getR(fracRound, d), rmul(x, relErr))
				// the module pays index difference x the position's *current* tokens: if the position's value moved
				// while the entitlement was accruing, the payout moves with it (C12's mechanism)
				lo, hi := m.vmin[p], m.vmax[p]
				vpre := pre.PosValue(p)
				if lo == nil || vpre.Cmp(lo) < 0 {
					lo = vpre
				}
				if hi == nil || vpre.Cmp(hi) > 0 {
					hi = vpre
				}
				if lo.Sign() > 0 && hi.Cmp(lo) > 0 {
					revalued[d] = radd(getR(revalued, d), rmul(x, rsub(rquo(hi, lo), big.NewRat(1, 1))))
				}
			}
			delete(m.vmin, p)
			delete(m.vmax, p)
			segs += m.segs[p] + 1
			delete(m.ledger, p)
			delete(m.res, p)
			delete(m.segs, p)
		}
		got := paid[del]
		denoms := map[string]bool{}
		for d := range want {
			denoms[d] = true
		}
		for _, c := range got {
			denoms[c.Denom] = true
		}
		for _, d := range sortedKeys(denoms) {
			w := getR(want, d)
			g := ratInt(got.AmountOf(d))
			lo := rsub(rsub(w, big.NewRat(int64(segs), 1)), getR(res, d))
			hi := radd(w, getR(res, d))
			if g.Cmp(lo) >= 0 && g.Cmp(hi) <= 0 {
				continue
			}
			cls := "payout-mismatch:" + st.ROp.Op.K
			dev := rabs(rsub(g, w))
			orphan := false
			for _, p := range claimed {
				if a, ok := pre.Assets[p.Denom]; ok && (a.TotalTokens.IsZero() || a.TotalValidatorShares.IsZero()) {
					orphan = true
				}
				// the validator's shares in this asset were cleared as "dust" (its 18-digit fraction of the asset rounds
				// to zero) while this delegation still exists: the position is worth nothing although it holds shares
				if pre.PosValue(p).Sign() == 0 && pre.Dels[p].Shares.IsPositive() {
					orphan = true
				}
			}
			switch {
			case orphan && g.Cmp(w) < 0:
				// the asset's staked total was withdrawn down to zero by others while this (dust) delegation remained
				cls = "payout-too-little:delegation-outlived-staked-total"
			case dev.Cmp(radd(radd(getR(tokenRound, d), getR(res, d)), big.NewRat(int64(segs), 1))) <= 0:
				cls = "payout:token-rounding"
			case dev.Cmp(radd(radd(radd(getR(tokenRound, d), getR(res, d)), getR(fracRound, d)), big.NewRat(int64(segs), 1))) <= 0:
				cls = "payout:share-fraction-rounding"
			case getR(revalued, d).Sign() > 0 && dev.Cmp(radd(radd(radd(radd(getR(tokenRound, d), getR(res, d)), getR(fracRound, d)), getR(revalued, d)), big.NewRat(int64(segs), 1))) <= 0:
				cls = "payout:position-revalued-between-accrual-and-claim"
			case g.Cmp(w) > 0:
				cls = "payout-too-much:" + st.ROp.Op.K
			case g.Cmp(w) < 0:
				cls = "payout-too-little:" + st.ROp.Op.K
			}
			r.Violate("C13.a", cls, fmt.Sprintf("%s: %s paid %s %s, accumulated entitlement %s (accepted [%s, %s]; token-rounding bound %s, share-fraction bound %s, index resolution %s, settlements %d)", st.Name, short(del), rstr(g), d, rstr(w), rstr(lo), rstr(hi), rstr(getR(tokenRound, d)), rstr(getR(fracRound, d)), rstr(getR(res, d)), segs))
			if r.failed() {
				return
			}
		}
		// (b) an immediate second claim pays nothing
		r.Eval("C13.b")
		for _, p := range claimed {
			if _, still := post.Dels[p]; !still {
				continue
			}
			if coins, ok := m.probeClaim(r, p); ok && !coins.IsZero() {
				r.Violate("C13.b", "second-claim-pays", fmt.Sprintf("right after %s an immediate claim for %s pays %s", st.Name, p, coins))
				return
			}
		}
		// (d) claiming changes no staked value
		if st.ROp.Op.K == "claim" {
			r.Eval("C13.d")
			for _, p := range post.DelOrder {
				if pre.PosValue(p).Cmp(post.PosValue(p)) != 0 {
					r.Violate("C13.d", "claim-changed-stake", fmt.Sprintf("claim changed the value of %s: %s -> %s", p, rstr(pre.PosValue(p)), rstr(post.PosValue(p))))
					return
				}
			}
		}
	} else {
		// nobody may be paid from the pool in a step that claims for nobody
		var tos []string
		for to := range paid {
			tos = append(tos, to)
		}
		sort.Strings(tos)
		for _, to := range tos {
			if !paid[to].IsZero() {
				r.Eval("C13.a")
				r.Violate("C13.a", "unexpected-payout", fmt.Sprintf("%s: rewards pool paid %s to %s although no position was claimed", st.Name, paid[to], short(to)))
				return
			}
		}
	}
	// (c) non-retroactivity: stake that just arrived cannot claim anything
	if st.Kind == "op" && st.Res.OK && (st.ROp.Op.K == "delegate" || st.ROp.Op.K == "redelegate") {
		ro := st.ROp
		val := ro.Val.String()
		if ro.Op.K == "redelegate" {
			val = ro.Dst.String()
		}
		p := PosKey{ro.Del.String(), val, ro.Denom}
		if _, ok := post.Dels[p]; ok {
			r.Eval("C13.c")
			_, existed := pre.Dels[p]
			if sv, ok := pre.StVals[val]; ok && !sv.IsBonded() {
				r.Probe("c13_new_stake_on_non_bonded_validator")
			}
			if existed {
				r.Probe("c13_grow_existing_" + ro.Op.K)
			} else {
				r.Probe("c13_new_position_" + ro.Op.K)
			}
			if coins, ok := m.probeClaim(r, p); ok {
				for _, c := range coins {
					allow := radd(big.NewRat(1, 1), rmul(post.PosValue(p), big.NewRat(2, 1_000_000_000_000_000_000)))
					if ratInt(c.Amount).Cmp(allow) > 0 {
						cls := "new-stake-paid:" + ro.Op.K
						if existed {
							cls = "grown-stake-paid:" + ro.Op.K
						}
						r.Violate("C13.c", cls, fmt.Sprintf("%s: the position %s can immediately claim %s although it was settled in this very step", st.Name, p, c))
						return
					}
				}
			}
		}
	}
	// (c, continued) rewards that accrued before stake on a validator changed must be split by the stake
	// distribution of that time "even if not yet withdrawn from the distribution module": right after a
	// stake-changing operation nothing may be left pending for the module on the validators it touched
	// (x/distribution allocates only at begin-block, so anything pending now accrued before the operation)
	if st.Kind == "op" && st.Res.OK && (st.ROp.Op.K == "delegate" || st.ROp.Op.K == "redelegate" || st.ROp.Op.K == "undelegate") {
		vals := []string{st.ROp.Val.String()}
		if st.ROp.Op.K == "redelegate" {
			vals = append(vals, st.ROp.Dst.String())
		}
		for _, v := range vals {
			if _, has := post.ModDels[v]; !has {
				continue
			}
			if a, ok := pre.Assets[st.ROp.Denom]; !ok || pre.Time.Before(a.RewardStartTime) {
				continue
			}
			r.Eval("C13.c")
			coins, ok := pendingModuleRewards(r, v)
			if !ok {
				continue
			}
			r.Probe("c13_pending_checked_after_stake_change")
			if sv, ok := post.StVals[v]; ok && !sv.IsBonded() {
				r.Probe("c13_pending_checked_on_non_bonded_validator")
			}
			if !coins.IsZero() {
				r.Violate("C13.c", "stake-changed-with-rewards-pending:"+st.ROp.Op.K, fmt.Sprintf("%s changed the stake on validator %s while %s of rewards were still pending for the module in x/distribution: they accrued to the previous stake distribution but will be split with the new one", st.Name, short(v), coins))
				return
			}
		}
	}
	// positions that vanished without a claim (should not happen outside claims) lose their ledger
	for p := range m.ledger {
		if _, ok := post.Dels[p]; !ok {
			delete(m.ledger, p)
			delete(m.res, p)
			delete(m.segs, p)
			delete(m.vmin, p)
			delete(m.vmax, p)
		}
	}
}

// pendingModuleRewards: what x/distribution would pay the module account for validator v right now
// (executed on a branch, nothing is kept).
func pendingModuleRewards(r *Runner, v string) (sdk.Coins, bool) {
	va, err := sdk.ValAddressFromBech32(v)
	if err != nil {
		return nil, false
	}
	var coins sdk.Coins
	ok, _ := tryMsg(r, func(ctx sdk.Context) error {
		c, err := r.W.App.DistrKeeper.WithdrawDelegationRewards(ctx, r.W.ModuleAddr, va)
		coins = c
		return err
	})
	return coins, ok
}
