package main

import (
	"bytes"
	"fmt"
	"math/rand"

	abci "github.com/cometbft/cometbft/abci/types"
	cryptotypes "github.com/cosmos/cosmos-sdk/crypto/types"
	simtestutil "github.com/cosmos/cosmos-sdk/testutil/sims"
	sdk "github.com/cosmos/cosmos-sdk/types"
)

// Differential ABCI executor (fidelity of the stubbed runTx, DESIGN 2.7).
//
// World A is driven by the simulator's executor (messages through the router on a cache branch).
// World B receives, block by block, the very same concrete messages as signed transactions through
// the real ABCI FinalizeBlock + Commit (ante handler, signatures, sequence numbers, zero fees) with
// the same header time, votes, proposer and misbehaviour. After every block the per-transaction
// success/failure must agree and the alliance, bank, staking (minus historical headers),
// distribution, slashing and mint stores must be byte-identical.

type abciMsg struct {
	msg sdk.Msg
	ok  bool
}

type monCollectMsgs struct {
	cur []abciMsg
}

func (m *monCollectMsgs) Name() string     { return "collect" }
func (m *monCollectMsgs) Finish(r *Runner) {}
func (m *monCollectMsgs) OnStep(r *Runner, st *Step) {
	if st.Kind == "op" && st.ROp != nil && st.ROp.Msg != nil {
		m.cur = append(m.cur, abciMsg{msg: st.ROp.Msg, ok: st.Res.OK})
	}
}

// abciProfile restricts schedules to what both executors can express identically: user messages
// only (no governance authority, no direct keeper calls, no gas-limit aborts, no crashes).
func abciProfile() *Profile {
	p := baseProfile()
	p.Name = "abci-differential"
	for _, k := range []string{"gov_create", "gov_update", "gov_delete", "gov_params", "gov_staking_params", "gov_slashing_params"} {
		p.W[k] = 0
	}
	p.PSlash, p.PGas, p.PCrash = 0, 0, 0
	p.PEvidence, p.PDowntime = 0.05, 0.05
	p.FeeTopups = false
	p.NoLongAddr = true
	p.MaxBlocks = 30
	return p
}

func (w *World) privFor(addr []byte) cryptotypes.PrivKey {
	for _, u := range w.allUsers() {
		if bytes.Equal(u.Addr, addr) {
			return u.Priv
		}
	}
	return nil
}

var abciCompareStores = []string{"alliance", "bank", "staking", "distribution", "slashing", "mint"}

func stakingWithoutHistory(kvs []KV) []KV {
	var out []KV
	for _, kv := range kvs {
		if len(kv.K) > 0 && kv.K[0] == 0x50 { // HistoricalInfo: embeds the block header (app hash differs: auth store carries sequences/pubkeys)
			continue
		}
		out = append(out, kv)
	}
	return out
}

// runABCIDifferential executes one schedule on both executors. Returns the number of blocks compared
// and a non-empty message on the first disagreement.
func runABCIDifferential(s *Schedule) (blocks int, disagreement string, err error) {
	wa, err := NewWorld(s.Config)
	if err != nil {
		return 0, "", err
	}
	defer wa.Close()
	wb, err := NewWorld(s.Config)
	if err != nil {
		return 0, "", err
	}
	defer wb.Close()
	col := &monCollectMsgs{}
	ra := NewRunner(wa, s, "", []Monitor{col}, &KnownFindings{})
	rnd := rand.New(rand.NewSource(1))
	txCfg := wb.App.TxConfig()
	ra.afterBlock = func(b *Block) {
		if disagreement != "" || ra.Halted {
			return
		}
		msgs := col.cur
		col.cur = nil
		// ---- world B: the same block through ABCI
		ctxB := wb.CtxAt(wb.Height, wb.Now, nil)
		seqs := map[string]uint64{}
		var txs [][]byte
		for _, am := range msgs {
			signers, _, e := wb.App.AppCodec().GetMsgV1Signers(am.msg)
			if e != nil || len(signers) != 1 {
				disagreement = fmt.Sprintf("cannot determine signer of %T: %v", am.msg, e)
				return
			}
			priv := wb.privFor(signers[0])
			acc := wb.App.AccountKeeper.GetAccount(ctxB, sdk.AccAddress(signers[0]))
			if priv == nil || acc == nil {
				disagreement = fmt.Sprintf("no key/account for signer %s", sdk.AccAddress(signers[0]))
				return
			}
			k := sdk.AccAddress(signers[0]).String()
			if _, ok := seqs[k]; !ok {
				seqs[k] = acc.GetSequence()
			}
			tx, e := simtestutil.GenSignedMockTx(rnd, txCfg, []sdk.Msg{am.msg}, sdk.NewCoins(), 20_000_000, ChainID, []uint64{acc.GetAccountNumber()}, []uint64{seqs[k]}, priv)
			if e != nil {
				disagreement = "signing failed: " + e.Error()
				return
			}
			seqs[k]++
			bz, e := txCfg.TxEncoder()(tx)
			if e != nil {
				disagreement = "encoding failed: " + e.Error()
				return
			}
			txs = append(txs, bz)
		}
		wb.Height, wb.Now = wa.Height, wa.Now
		resp, e := wb.App.FinalizeBlock(&abci.RequestFinalizeBlock{
			Height: wb.Height, Time: wb.Now, Txs: txs,
			ProposerAddress:   ra.lastProposer,
			DecidedLastCommit: abci.CommitInfo{Votes: ra.lastVotes},
			Misbehavior:       ra.lastMis,
		})
		if e != nil {
			disagreement = fmt.Sprintf("block %d: FinalizeBlock failed on the ABCI executor: %v", ra.BlockIdx, e)
			return
		}
		if _, e = wb.App.Commit(); e != nil {
			disagreement = "Commit failed: " + e.Error()
			return
		}
		blocks++
		for i, am := range msgs {
			okB := resp.TxResults[i].Code == 0
			if okB != am.ok {
				disagreement = fmt.Sprintf("block %d tx %d (%T): stub executor ok=%v, ABCI executor code=%d log=%q", ra.BlockIdx, i, am.msg, am.ok, resp.TxResults[i].Code, clip(resp.TxResults[i].Log, 200))
				return
			}
		}
		ca := wa.CtxAt(wa.Height, wa.Now, nil)
		cb := wb.CtxAt(wb.Height, wb.Now, nil)
		for _, name := range abciCompareStores {
			a := dumpStore(ca, wa.App.GetKey(name))
			bb := dumpStore(cb, wb.App.GetKey(name))
			if name == "staking" {
				a, bb = stakingWithoutHistory(a), stakingWithoutHistory(bb)
			}
			if hashKVs(a) != hashKVs(bb) {
				d := diffKVs(a, bb)
				disagreement = fmt.Sprintf("block %d: store %q differs between the stub executor and the ABCI executor: %v", ra.BlockIdx, name, trimList(d))
				return
			}
		}
	}
	ra.Run()
	return blocks, disagreement, nil
}
