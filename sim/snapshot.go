package main

import (
	"bytes"
	"crypto/sha256"
	"encoding/hex"
	"fmt"
	"math/big"
	"sort"
	"time"

	sdkmath "cosmossdk.io/math"
	storetypes "cosmossdk.io/store/types"
	sdk "github.com/cosmos/cosmos-sdk/types"
	distrtypes "github.com/cosmos/cosmos-sdk/x/distribution/types"
	stakingtypes "github.com/cosmos/cosmos-sdk/x/staking/types"

	alliancetypes "github.com/terra-money/alliance/x/alliance/types"
)

// Snapshots are built by raw iteration of the module store with key parsers written here
// (not the module's own query helpers, which are subjects of C20).

type PosKey struct{ Del, Val, Denom string }

func (p PosKey) String() string { return fmt.Sprintf("%s@%s/%s", short(p.Del), short(p.Val), p.Denom) }

func short(s string) string {
	if len(s) > 12 {
		return s[len(s)-6:]
	}
	return s
}

type RedelRec struct {
	Del, Denom, Dst string
	Completion      time.Time
	Rec             alliancetypes.Redelegation
}
type RedelQ struct {
	Completion time.Time
	Entries    []alliancetypes.Redelegation
}
type UndelQ struct {
	Completion time.Time
	Del        string
	Entries    []alliancetypes.Undelegation
}
type RedelIdx struct {
	Src, Denom, Dst, Del string
	Completion           time.Time
}
type UndelIdx struct {
	Val, Denom, Del string
	Completion      time.Time
}
type WSnap struct {
	Denom, Val string
	Height     uint64
	Snap       alliancetypes.RewardWeightChangeSnapshot
}
type SlashEv struct {
	Val      string
	Height   uint64
	Period   uint64
	Fraction sdkmath.LegacyDec
}
type KV struct{ K, V []byte }

type Snap struct {
	Height int64
	Time   time.Time

	Params     alliancetypes.Params
	HasParams  bool
	Assets     map[string]alliancetypes.AllianceAsset
	AssetOrder []string
	ValInfos   map[string]alliancetypes.AllianceValidatorInfo
	ValOrder   []string
	Flag       bool
	Dels       map[PosKey]alliancetypes.Delegation
	DelOrder   []PosKey
	Redels     []RedelRec
	RedelQueue []RedelQ
	UndelQueue []UndelQ
	RedelIdx   []RedelIdx
	UndelIdx   []UndelIdx
	WSnaps     []WSnap
	Unknown    []KV // keys under prefixes this decoder does not know
	Raw        []KV // the whole alliance store

	Bal         map[string]sdk.Coins
	Supply      sdk.Coins
	StVals      map[string]stakingtypes.Validator
	StValOrder  []string
	ModDels     map[string]sdkmath.LegacyDec
	TotalBonded sdkmath.Int
	SlashEvents []SlashEv
	UnbondingNs int64
}

func readLP(b []byte, off int) ([]byte, int, error) {
	if off >= len(b) {
		return nil, off, fmt.Errorf("short key")
	}
	n := int(b[off])
	off++
	if off+n > len(b) {
		return nil, off, fmt.Errorf("short key")
	}
	return b[off : off+n], off + n, nil
}

func denomFromLP(b []byte) string {
	// denom is stored with a trailing zero byte
	if len(b) > 0 && b[len(b)-1] == 0 {
		return string(b[:len(b)-1])
	}
	return string(b)
}

func accStr(b []byte) string { return sdk.AccAddress(b).String() }
func valStr(b []byte) string { return sdk.ValAddress(b).String() }

func parseTime(b []byte) (time.Time, error) { return sdk.ParseTimeBytes(b) }

func (w *World) allianceStore(ctx sdk.Context) storetypes.KVStore {
	return ctx.KVStore(w.App.GetKey(alliancetypes.StoreKey))
}

func dumpStore(ctx sdk.Context, key storetypes.StoreKey) []KV {
	st := ctx.KVStore(key)
	it := st.Iterator(nil, nil)
	defer it.Close()
	var out []KV
	for ; it.Valid(); it.Next() {
		out = append(out, KV{K: append([]byte{}, it.Key()...), V: append([]byte{}, it.Value()...)})
	}
	return out
}

func hashKVs(kvs []KV) string {
	h := sha256.New()
	for _, kv := range kvs {
		var l [8]byte
		big.NewInt(int64(len(kv.K))).FillBytes(l[:])
		h.Write(l[:])
		h.Write(kv.K)
		big.NewInt(int64(len(kv.V))).FillBytes(l[:])
		h.Write(l[:])
		h.Write(kv.V)
	}
	return hex.EncodeToString(h.Sum(nil))[:16]
}

func diffKVs(a, b []KV) (out []string) {
	i, j := 0, 0
	for i < len(a) || j < len(b) {
		switch {
		case j >= len(b) || (i < len(a) && bytes.Compare(a[i].K, b[j].K) < 0):
			out = append(out, fmt.Sprintf("-%x", a[i].K))
			i++
		case i >= len(a) || bytes.Compare(a[i].K, b[j].K) > 0:
			out = append(out, fmt.Sprintf("+%x", b[j].K))
			j++
		default:
			if !bytes.Equal(a[i].V, b[j].V) {
				out = append(out, fmt.Sprintf("~%x", a[i].K))
			}
			i++
			j++
		}
	}
	return out
}

// TakeSnap builds a snapshot from ctx. It only reads.
func (w *World) TakeSnap(ctx sdk.Context) *Snap {
	cdc := w.App.AppCodec()
	s := &Snap{
		Height:   ctx.BlockHeight(),
		Time:     ctx.BlockTime(),
		Assets:   map[string]alliancetypes.AllianceAsset{},
		ValInfos: map[string]alliancetypes.AllianceValidatorInfo{},
		Dels:     map[PosKey]alliancetypes.Delegation{},
		Bal:      map[string]sdk.Coins{},
		StVals:   map[string]stakingtypes.Validator{},
		ModDels:  map[string]sdkmath.LegacyDec{},
	}
	s.Raw = dumpStore(ctx, w.App.GetKey(alliancetypes.StoreKey))
	for _, kv := range s.Raw {
		k, v := kv.K, kv.V
		if len(k) == 0 {
			s.Unknown = append(s.Unknown, kv)
			continue
		}
		var err error
		switch k[0] {
		case 0x02:
			cdc.MustUnmarshal(v, &s.Params)
			s.HasParams = true
		case 0x11:
			var a alliancetypes.AllianceAsset
			cdc.MustUnmarshal(v, &a)
			s.Assets[a.Denom] = a
			s.AssetOrder = append(s.AssetOrder, a.Denom)
		case 0x12:
			var vi alliancetypes.AllianceValidatorInfo
			cdc.MustUnmarshal(v, &vi)
			var ab []byte
			ab, _, err = readLP(k, 1)
			if err == nil {
				s.ValInfos[valStr(ab)] = vi
				s.ValOrder = append(s.ValOrder, valStr(ab))
			}
		case 0x13:
			s.Flag = true
		case 0x14:
			var ws alliancetypes.RewardWeightChangeSnapshot
			cdc.MustUnmarshal(v, &ws)
			var db, vb []byte
			off := 1
			if db, off, err = readLP(k, off); err == nil {
				if vb, off, err = readLP(k, off); err == nil && len(k) >= off+8 {
					s.WSnaps = append(s.WSnaps, WSnap{Denom: denomFromLP(db), Val: valStr(vb), Height: sdk.BigEndianToUint64(k[off : off+8]), Snap: ws})
				}
			}
		case 0x21:
			var d alliancetypes.Delegation
			cdc.MustUnmarshal(v, &d)
			var db, vb, nb []byte
			off := 1
			if db, off, err = readLP(k, off); err == nil {
				if vb, off, err = readLP(k, off); err == nil {
					if nb, _, err = readLP(k, off); err == nil {
						pk := PosKey{Del: accStr(db), Val: valStr(vb), Denom: denomFromLP(nb)}
						s.Dels[pk] = d
						s.DelOrder = append(s.DelOrder, pk)
					}
				}
			}
		case 0x22:
			var r alliancetypes.Redelegation
			cdc.MustUnmarshal(v, &r)
			var db, nb, vb []byte
			off := 1
			if db, off, err = readLP(k, off); err == nil {
				if nb, off, err = readLP(k, off); err == nil {
					if vb, off, err = readLP(k, off); err == nil {
						var t time.Time
						if t, err = parseTime(k[off:]); err == nil {
							s.Redels = append(s.Redels, RedelRec{Del: accStr(db), Denom: denomFromLP(nb), Dst: valStr(vb), Completion: t, Rec: r})
						}
					}
				}
			}
		case 0x23:
			var q alliancetypes.QueuedRedelegation
			cdc.MustUnmarshal(v, &q)
			var t time.Time
			if t, err = parseTime(k[1:]); err == nil {
				rq := RedelQ{Completion: t}
				for _, e := range q.Entries {
					rq.Entries = append(rq.Entries, *e)
				}
				s.RedelQueue = append(s.RedelQueue, rq)
			}
		case 0x24:
			var q alliancetypes.QueuedUndelegation
			cdc.MustUnmarshal(v, &q)
			var tb, db []byte
			off := 1
			if tb, off, err = readLP(k, off); err == nil {
				if db, _, err = readLP(k, off); err == nil {
					var t time.Time
					if t, err = parseTime(tb); err == nil {
						uq := UndelQ{Completion: t, Del: accStr(db)}
						for _, e := range q.Entries {
							uq.Entries = append(uq.Entries, *e)
						}
						s.UndelQueue = append(s.UndelQueue, uq)
					}
				}
			}
		case 0x31:
			var sb, tb, nb, vb, db []byte
			off := 1
			if sb, off, err = readLP(k, off); err == nil {
				if tb, off, err = readLP(k, off); err == nil {
					if nb, off, err = readLP(k, off); err == nil {
						if vb, off, err = readLP(k, off); err == nil {
							if db, _, err = readLP(k, off); err == nil {
								var t time.Time
								if t, err = parseTime(tb); err == nil {
									s.RedelIdx = append(s.RedelIdx, RedelIdx{Src: valStr(sb), Completion: t, Denom: denomFromLP(nb), Dst: valStr(vb), Del: accStr(db)})
								}
							}
						}
					}
				}
			}
		case 0x32:
			var vb, tb, nb, db []byte
			off := 1
			if vb, off, err = readLP(k, off); err == nil {
				if tb, off, err = readLP(k, off); err == nil {
					if nb, off, err = readLP(k, off); err == nil {
						if db, _, err = readLP(k, off); err == nil {
							var t time.Time
							if t, err = parseTime(tb); err == nil {
								s.UndelIdx = append(s.UndelIdx, UndelIdx{Val: valStr(vb), Completion: t, Denom: denomFromLP(nb), Del: accStr(db)})
							}
						}
					}
				}
			}
		default:
			s.Unknown = append(s.Unknown, kv)
		}
		if err != nil {
			s.Unknown = append(s.Unknown, kv)
		}
	}

	// ---- bank
	bk := w.App.BankKeeper
	track := []sdk.AccAddress{w.ModuleAddr, w.RewardsAddr, w.FeeCollector, w.GovAddr, w.BondedPool, w.NotBonded, w.DistrAddr}
	for _, u := range w.allUsers() {
		track = append(track, u.Addr)
	}
	for _, a := range track {
		s.Bal[a.String()] = bk.GetAllBalances(ctx, a)
	}
	for _, d := range append([]string{BondDenom, FeeDenom}, AllianceDenoms...) {
		c := bk.GetSupply(ctx, d)
		if !c.IsZero() {
			s.Supply = s.Supply.Add(c)
		}
	}

	// ---- staking
	sk := w.App.StakingKeeper
	vals, _ := sk.GetAllValidators(ctx)
	for _, v := range vals {
		s.StVals[v.OperatorAddress] = v
		s.StValOrder = append(s.StValOrder, v.OperatorAddress)
	}
	sort.Strings(s.StValOrder)
	_ = sk.IterateDelegatorDelegations(ctx, w.ModuleAddr, func(d stakingtypes.Delegation) bool {
		s.ModDels[d.ValidatorAddress] = d.Shares
		return false
	})
	s.TotalBonded, _ = sk.TotalBondedTokens(ctx)
	ut, _ := sk.UnbondingTime(ctx)
	s.UnbondingNs = int64(ut)

	// ---- distribution slash events (the fraction every BeforeValidatorSlashed hook received)
	w.App.DistrKeeper.IterateValidatorSlashEvents(ctx, func(val sdk.ValAddress, height uint64, ev distrtypes.ValidatorSlashEvent) bool {
		s.SlashEvents = append(s.SlashEvents, SlashEv{Val: val.String(), Height: height, Period: ev.ValidatorPeriod, Fraction: ev.Fraction})
		return false
	})
	return s
}

// ---------------------------------------------------------------------------
// exact arithmetic helpers
// ---------------------------------------------------------------------------

var pow18 = new(big.Int).Exp(big.NewInt(10), big.NewInt(18), nil)

func ratDec(d sdkmath.LegacyDec) *big.Rat {
	if d.IsNil() {
		return new(big.Rat)
	}
	return new(big.Rat).SetFrac(d.BigInt(), pow18)
}
func ratInt(i sdkmath.Int) *big.Rat {
	if i.IsNil() {
		return new(big.Rat)
	}
	return new(big.Rat).SetInt(i.BigInt())
}
func ratI64(i int64) *big.Rat { return new(big.Rat).SetInt64(i) }

func rmul(a, b *big.Rat) *big.Rat { return new(big.Rat).Mul(a, b) }
func rquo(a, b *big.Rat) *big.Rat { return new(big.Rat).Quo(a, b) }
func radd(a, b *big.Rat) *big.Rat { return new(big.Rat).Add(a, b) }
func rsub(a, b *big.Rat) *big.Rat { return new(big.Rat).Sub(a, b) }
func rabs(a *big.Rat) *big.Rat    { return new(big.Rat).Abs(a) }
func rfloor(a *big.Rat) *big.Int {
	q := new(big.Int)
	m := new(big.Int)
	q.DivMod(a.Num(), a.Denom(), m)
	return q
}
func rstr(a *big.Rat) string { return a.FloatString(6) }

func decCoinsAmount(dc []sdk.DecCoin, denom string) sdkmath.LegacyDec {
	for _, c := range dc {
		if c.Denom == denom {
			return c.Amount
		}
	}
	return sdkmath.LegacyZeroDec()
}

// ValTokens is the exact token value of validator val's stake in denom.
func (s *Snap) ValTokens(val, denom string) *big.Rat {
	a, ok := s.Assets[denom]
	if !ok {
		return new(big.Rat)
	}
	vi, ok := s.ValInfos[val]
	if !ok {
		return new(big.Rat)
	}
	vs := ratDec(decCoinsAmount(vi.ValidatorShares, denom))
	ts := ratDec(a.TotalValidatorShares)
	if ts.Sign() == 0 || vs.Sign() == 0 {
		return new(big.Rat)
	}
	return rmul(rquo(vs, ts), ratInt(a.TotalTokens))
}

// PosValue is the exact redeemable value of a position.
func (s *Snap) PosValue(p PosKey) *big.Rat {
	d, ok := s.Dels[p]
	if !ok {
		return new(big.Rat)
	}
	vi, ok := s.ValInfos[p.Val]
	if !ok {
		return new(big.Rat)
	}
	tds := ratDec(decCoinsAmount(vi.TotalDelegatorShares, p.Denom))
	if tds.Sign() == 0 {
		return new(big.Rat)
	}
	return rmul(rquo(ratDec(d.Shares), tds), s.ValTokens(p.Val, p.Denom))
}

func (s *Snap) BalOf(addr sdk.AccAddress, denom string) sdkmath.Int {
	return s.Bal[addr.String()].AmountOf(denom)
}

// PendingUnbonding sums the unbonding balances per denom.
func (s *Snap) PendingUnbonding() map[string]sdkmath.Int {
	out := map[string]sdkmath.Int{}
	for _, q := range s.UndelQueue {
		for _, e := range q.Entries {
			cur, ok := out[e.Balance.Denom]
			if !ok {
				cur = sdkmath.ZeroInt()
			}
			out[e.Balance.Denom] = cur.Add(e.Balance.Amount)
		}
	}
	return out
}

// ModuleStake returns the token value of the module's own staking delegation to val.
func (s *Snap) ModuleStake(val string) *big.Rat {
	sh, ok := s.ModDels[val]
	if !ok {
		return new(big.Rat)
	}
	v, ok := s.StVals[val]
	if !ok || v.DelegatorShares.IsZero() {
		return new(big.Rat)
	}
	return rquo(rmul(ratDec(sh), ratInt(v.Tokens)), ratDec(v.DelegatorShares))
}

func (s *Snap) Digest() string { return hashKVs(s.Raw) }

// Summary renders the snapshot for humans (replay -dump).
func (s *Snap) Summary() string {
	out := ""
	for _, d := range s.AssetOrder {
		a := s.Assets[d]
		out += fmt.Sprintf("    asset %s T=%s S=%s w=%s take=%s start=%s init=%v\n", d, a.TotalTokens, a.TotalValidatorShares, a.RewardWeight, a.TakeRate, a.RewardStartTime.Format(time.RFC3339), a.IsInitialized)
	}
	for _, v := range s.StValOrder {
		sv := s.StVals[v]
		vi := s.ValInfos[v]
		out += fmt.Sprintf("    val %s %s jailed=%v tokens=%s shares=%s modstake=%s | valshares=%v delshares=%v\n", short(v), sv.Status, sv.Jailed, sv.Tokens, sv.DelegatorShares, rstr(s.ModuleStake(v)), vi.ValidatorShares, vi.TotalDelegatorShares)
	}
	for _, p := range s.DelOrder {
		out += fmt.Sprintf("    pos %s shares=%s value=%s\n", p, s.Dels[p].Shares, rstr(s.PosValue(p)))
	}
	for _, q := range s.UndelQueue {
		for _, e := range q.Entries {
			out += fmt.Sprintf("    unbonding %s del=%s val=%s %s\n", q.Completion.Format(time.RFC3339Nano), short(q.Del), short(e.ValidatorAddress), e.Balance)
		}
	}
	for _, q := range s.Redels {
		out += fmt.Sprintf("    redel %s del=%s src=%s dst=%s %s\n", q.Completion.Format(time.RFC3339Nano), short(q.Del), short(q.Rec.SrcValidatorAddress), short(q.Dst), q.Rec.Balance)
	}
	out += fmt.Sprintf("    flag=%v bonded=%s module=%s rewards=%s feecol=%s params=%+v", s.Flag, s.TotalBonded, s.Bal[moduleAddrStr], s.Bal[rewardsAddrStr], s.Bal[feeAddrStr], s.Params)
	return out
}

var moduleAddrStr, rewardsAddrStr, feeAddrStr string
