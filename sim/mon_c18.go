package main

import (
	"bytes"
	"fmt"
	"sort"
	"strings"

	sdk "github.com/cosmos/cosmos-sdk/types"

	alliancetypes "github.com/terra-money/alliance/x/alliance/types"
)

// C18 genesis export/import yields an observationally equivalent module.
//
// Every schedule is executed twice from genesis. Run A is the original. Run B performs, at the block
// boundaries the schedule marks, ExportGenesis -> delete every key of the module store ->
// InitGenesis(export) -> ExportGenesis on its real state, and then continues. Both runs record the
// same observables after every step (results and errors, balances, assets, positions, pending
// entries, staking view, query answers); the two sequences must be equal (lock-step continuation).

type obsStep struct {
	Name  string
	Parts map[string]string
}

type monObserve struct {
	steps []obsStep
}

func (m *monObserve) Name() string     { return "observe" }
func (m *monObserve) Finish(r *Runner) {}

func (m *monObserve) OnStep(r *Runner, st *Step) {
	s := st.Post
	p := map[string]string{}
	if st.Res != nil {
		p["result"] = fmt.Sprintf("%v|%s", st.Res.OK, st.Res.Err)
	}
	var sb strings.Builder
	accs := make([]string, 0, len(s.Bal))
	for a := range s.Bal {
		accs = append(accs, a)
	}
	sort.Strings(accs)
	for _, a := range accs {
		fmt.Fprintf(&sb, "%s=%s;", short(a), s.Bal[a])
	}
	p["balances"] = sb.String()
	sb.Reset()
	for _, d := range s.AssetOrder {
		a := s.Assets[d]
		fmt.Fprintf(&sb, "%s|%s|%s|%s|%s|%s|%s|%v|%s|%d|%s;", d, a.TotalTokens, a.TotalValidatorShares, a.RewardWeight, a.TakeRate, a.RewardStartTime.UTC(), a.LastRewardChangeTime.UTC(), a.IsInitialized, a.RewardChangeRate, a.RewardChangeInterval, a.RewardWeightRange)
	}
	p["assets"] = sb.String()
	sb.Reset()
	for _, pk := range s.DelOrder {
		d := s.Dels[pk]
		fmt.Fprintf(&sb, "%s|%s|%d|%v;", pk, d.Shares, d.LastRewardClaimHeight, d.RewardHistory)
	}
	p["positions"] = sb.String()
	sb.Reset()
	for _, v := range s.ValOrder {
		vi := s.ValInfos[v]
		fmt.Fprintf(&sb, "%s|%v|%v|%v;", short(v), vi.ValidatorShares, vi.TotalDelegatorShares, vi.GlobalRewardHistory)
	}
	p["validators"] = sb.String()
	p["unbondings"] = strings.Join(storeUnbondingKeys(s), ";")
	sb.Reset()
	for _, x := range s.Redels {
		fmt.Fprintf(&sb, "%s|%s|%s|%s|%s|%d;", short(x.Del), x.Denom, short(x.Rec.SrcValidatorAddress), short(x.Dst), x.Rec.Balance.Amount, x.Completion.UnixNano())
	}
	p["redelegations"] = sb.String()
	p["params"] = fmt.Sprintf("%d|%d|%s", s.Params.RewardDelayTime, s.Params.TakeRateClaimInterval, s.Params.LastTakeRateClaimTime.UTC())
	sb.Reset()
	for _, v := range s.StValOrder {
		sv := s.StVals[v]
		fmt.Fprintf(&sb, "%s|%s|%s|%v|%s|%s;", short(v), sv.Status, sv.Tokens, sv.Jailed, sv.DelegatorShares, rstr(s.ModuleStake(v)))
	}
	p["staking"] = sb.String() + s.TotalBonded.String()
	sb.Reset()
	for _, e := range s.WSnaps {
		fmt.Fprintf(&sb, "%s|%s|%d|%s|%v;", e.Denom, short(e.Val), e.Height, e.Snap.PrevRewardWeight, e.Snap.RewardHistories)
	}
	p["weight-snapshots"] = sb.String()
	// query answers (pending entries as the users see them)
	sb.Reset()
	ctx := r.Branch()
	for _, d := range r.W.Delegators {
		if u, err := r.QS.AllianceUnbondingsByDelegator(ctx, &alliancetypes.QueryAllianceUnbondingsByDelegatorRequest{DelegatorAddr: d.Addr.String()}); err == nil {
			fmt.Fprintf(&sb, "U%s=%v;", short(d.Addr.String()), renderUnb(u.Unbondings))
		} else {
			fmt.Fprintf(&sb, "U%s=ERR %v;", short(d.Addr.String()), err)
		}
		if u, err := r.QS.AllianceRedelegationsByDelegator(ctx, &alliancetypes.QueryAllianceRedelegationsByDelegatorRequest{DelegatorAddr: d.Addr.String()}); err == nil {
			for _, e := range u.Redelegations {
				fmt.Fprintf(&sb, "R%s|%s|%s|%s|%d;", short(e.DelegatorAddress), short(e.SrcValidatorAddress), short(e.DstValidatorAddress), e.Balance, e.CompletionTime.UnixNano())
			}
		}
	}
	p["queries"] = sb.String()
	m.steps = append(m.steps, obsStep{Name: st.Name, Parts: p})
}

// doExportImport is the hard-fork fault (F7) applied to the real state of run B.
func (r *Runner) doExportImport() {
	w := r.W
	ctx := w.CtxAt(w.Height, w.Now, nil)
	k := w.App.AllianceKeeper
	pre := w.TakeSnap(ctx)
	e1 := k.ExportGenesis(ctx)
	b1 := w.App.AppCodec().MustMarshal(e1)
	st := w.allianceStore(ctx)
	var keys [][]byte
	it := st.Iterator(nil, nil)
	for ; it.Valid(); it.Next() {
		keys = append(keys, append([]byte{}, it.Key()...))
	}
	it.Close()
	for _, key := range keys {
		st.Delete(key)
	}
	func() {
		defer func() {
			if rec := recover(); rec != nil {
				r.Violate("C18.a", "import-panicked", fmt.Sprintf("InitGenesis of the module's own export panicked: %v", rec))
			}
		}()
		k.InitGenesis(ctx, e1)
	}()
	if r.failed() {
		return
	}
	e2 := k.ExportGenesis(ctx)
	b2 := w.App.AppCodec().MustMarshal(e2)
	r.Fault("F7_export_import")
	r.Eval("C18.a")
	r.Nontrivial()
	if len(pre.UndelQueue) > 0 {
		r.Probe("c18_export_with_pending_unbondings")
	}
	if len(pre.Redels) > 0 {
		r.Probe("c18_export_with_pending_redelegations")
	}
	if len(pre.WSnaps) > 0 {
		r.Probe("c18_export_with_weight_snapshots")
	}
	for _, q := range pre.UndelQueue {
		if len(q.Entries) > 1 {
			r.Probe("c18_export_with_shared_bucket")
		}
	}
	// preconditions of the open findings, taken from the state at the export
	r.exportFlagSet = r.exportFlagSet || pre.Flag
	idx := map[string]int{}
	for _, x := range pre.RedelIdx {
		idx[fmt.Sprintf("%s|%s|%s|%d", x.Del, x.Denom, x.Dst, x.Completion.UnixNano())]++
	}
	for _, n := range idx {
		if n > 1 {
			r.exportMerged = true
			r.Probe("c18_export_with_merged_redelegation_record")
		}
	}
	if pre.Flag {
		r.Probe("c18_export_with_rebalance_pending")
	}
	if !bytes.Equal(b1, b2) {
		r.Violate("C18.a", "second-export-differs", fmt.Sprintf("export -> import -> export is not idempotent (%d vs %d bytes): %s", len(b1), len(b2), firstGenesisDiff(e1, e2)))
	}
}

func firstGenesisDiff(a, b *alliancetypes.GenesisState) string {
	switch {
	case len(a.Assets) != len(b.Assets):
		return fmt.Sprintf("assets %d vs %d", len(a.Assets), len(b.Assets))
	case len(a.Delegations) != len(b.Delegations):
		return fmt.Sprintf("delegations %d vs %d", len(a.Delegations), len(b.Delegations))
	case len(a.Redelegations) != len(b.Redelegations):
		return fmt.Sprintf("redelegations %d vs %d", len(a.Redelegations), len(b.Redelegations))
	case len(a.Undelegations) != len(b.Undelegations):
		return fmt.Sprintf("undelegations %d vs %d", len(a.Undelegations), len(b.Undelegations))
	case len(a.ValidatorInfos) != len(b.ValidatorInfos):
		return fmt.Sprintf("validator infos %d vs %d", len(a.ValidatorInfos), len(b.ValidatorInfos))
	case len(a.RewardWeightChangeSnaphots) != len(b.RewardWeightChangeSnaphots):
		return fmt.Sprintf("weight snapshots %d vs %d", len(a.RewardWeightChangeSnaphots), len(b.RewardWeightChangeSnaphots))
	}
	for i := range a.Redelegations {
		if a.Redelegations[i].String() != b.Redelegations[i].String() {
			return fmt.Sprintf("redelegation %d: %s vs %s", i, a.Redelegations[i].String(), b.Redelegations[i].String())
		}
	}
	for i := range a.Undelegations {
		if a.Undelegations[i].String() != b.Undelegations[i].String() {
			return fmt.Sprintf("undelegation %d differs", i)
		}
	}
	return "field-level difference"
}

// executeC18 runs the schedule twice and compares the observable histories.
func executeC18(s *Schedule, kf *KnownFindings, verbose bool) (*Runner, error) {
	run := func(apply bool) (*Runner, *monObserve, error) {
		w, err := NewWorld(s.Config)
		if err != nil {
			return nil, nil, err
		}
		defer w.Close()
		mo := &monObserve{}
		r := NewRunner(w, s, "C18", []Monitor{mo}, kf)
		r.ApplyExportImport = apply
		r.Verbose = verbose && apply
		r.Run()
		return r, mo, nil
	}
	ra, oa, err := run(false)
	if err != nil {
		return nil, err
	}
	rb, ob, err := run(true)
	if err != nil {
		return nil, err
	}
	_ = ra
	if len(rb.Viols) > 0 || rb.Stats.Faults["F7_export_import"] == 0 {
		return rb, nil
	}
	rb.Eval("C18.b")
	n := len(oa.steps)
	if len(ob.steps) < n {
		n = len(ob.steps)
	}
	for i := 0; i < n; i++ {
		a, b := oa.steps[i], ob.steps[i]
		var diffs []string
		for k, va := range a.Parts {
			if b.Parts[k] != va {
				diffs = append(diffs, k)
			}
		}
		if a.Name != b.Name {
			diffs = append(diffs, "step-sequence")
		}
		if len(diffs) == 0 {
			continue
		}
		sort.Strings(diffs)
		cls := "lockstep-diverged:" + diffs[0]
		subset := func(allowed ...string) bool {
			for _, d := range diffs {
				ok := false
				for _, a := range allowed {
					if d == a {
						ok = true
					}
				}
				if !ok {
					return false
				}
			}
			return true
		}
		switch {
		// a lost rebalance can only show at an end-of-block, in the staking view, the pool balances and the
		// validators' reward indexes (rebalancing settles rewards); never in positions, assets or pending entries
		case rb.exportFlagSet && strings.HasSuffix(a.Name, "/end") && subset("staking", "balances", "validators"):
			cls = "lockstep-diverged:pending-rebalance-not-exported"
		// a lost second source can only show when a slash walks the per-source index
		case rb.exportMerged && (strings.HasSuffix(a.Name, "/begin") || strings.Contains(a.Name, "/slash")) && subset("positions", "validators", "balances", "queries", "staking", "assets"):
			cls = "lockstep-diverged:merged-redelegation-record"
		}
		rb.BlockIdx, rb.StepName = blockOfStep(a.Name), a.Name
		rb.Violate("C18.b", cls, fmt.Sprintf("after export/import the continuation diverges at %s in %v: original %q vs re-imported %q", a.Name, diffs, clip(a.Parts[diffs[0]], 300), clip(b.Parts[diffs[0]], 300)))
		return rb, nil
	}
	if len(oa.steps) != len(ob.steps) {
		rb.Violate("C18.b", "lockstep-diverged:length", fmt.Sprintf("original ran %d steps, re-imported ran %d (halt %q vs %q)", len(oa.steps), len(ob.steps), ra.Stats.Halt, rb.Stats.Halt))
	}
	return rb, nil
}

func clip(s string, n int) string {
	if len(s) > n {
		return s[:n] + "…"
	}
	return s
}

func blockOfStep(name string) int {
	var b int
	_, _ = fmt.Sscanf(name, "b%d/", &b)
	return b
}

var _ = sdk.NewCoin
