package main

import (
	"fmt"
	"math/big"
	"sort"
	"time"

	sdkmath "cosmossdk.io/math"
)

// Reference ledgers for pending unbondings and redelegations. They are fed only by
// (a) successful user operations as requested, (b) observed slash events (validator, fraction)
// and (c) the clock. They never read the module's records.

type UEntry struct {
	ID         int
	Del, Val   string
	Denom      string
	Amount     sdkmath.Int
	Orig       sdkmath.Int
	Created    time.Time
	Completion time.Time
	Paid       bool
	Slashes    int
}

type REntry struct {
	ID            int
	Del, Src, Dst string
	Denom         string
	Amount        sdkmath.Int
	Created       time.Time
	Completion    time.Time
	Done          bool
}

type Ledger struct {
	U      []*UEntry
	R      []*REntry
	nextID int
}

func (l *Ledger) key(e *UEntry) string {
	return fmt.Sprintf("%s|%s|%s|%s|%d", e.Del, e.Val, e.Denom, e.Amount, e.Completion.UnixNano())
}

// OnUndelegate appends the entry a successful undelegation must create.
func (l *Ledger) OnUndelegate(st *Step) *UEntry {
	ro := st.ROp
	e := &UEntry{ID: l.nextID, Del: ro.Del.String(), Val: ro.Val.String(), Denom: ro.Denom, Amount: ro.Amount, Orig: ro.Amount,
		Created: st.Post.Time, Completion: st.Post.Time.Add(time.Duration(st.Pre.UnbondingNs))}
	l.nextID++
	l.U = append(l.U, e)
	return e
}

func (l *Ledger) OnRedelegate(st *Step) *REntry {
	ro := st.ROp
	e := &REntry{ID: l.nextID, Del: ro.Del.String(), Src: ro.Val.String(), Dst: ro.Dst.String(), Denom: ro.Denom, Amount: ro.Amount,
		Created: st.Post.Time, Completion: st.Post.Time.Add(time.Duration(st.Pre.UnbondingNs))}
	l.nextID++
	l.R = append(l.R, e)
	return e
}

// floorMul returns floor(f * x) exactly (the formula stated by C07).
func floorMul(f sdkmath.LegacyDec, x sdkmath.Int) sdkmath.Int {
	r := rmul(ratDec(f), ratInt(x))
	return sdkmath.NewIntFromBigInt(rfloor(r))
}

// OnSlash applies a slash of val by f at time now to every still-pending unbonding that
// originated from val. Returns the total reductions per denom (what must reach the fee collector).
func (l *Ledger) OnSlash(val string, f sdkmath.LegacyDec, now time.Time) map[string]sdkmath.Int {
	out := map[string]sdkmath.Int{}
	for _, e := range l.U {
		if e.Paid || e.Val != val || e.Completion.Before(now) {
			continue
		}
		cut := floorMul(f, e.Amount)
		e.Amount = e.Amount.Sub(cut)
		e.Slashes++
		cur, ok := out[e.Denom]
		if !ok {
			cur = sdkmath.ZeroInt()
		}
		out[e.Denom] = cur.Add(cut)
	}
	return out
}

// Mature marks and returns the unbonding entries that the end-of-block at time now must pay.
func (l *Ledger) Mature(now time.Time) []*UEntry {
	var out []*UEntry
	for _, e := range l.U {
		if !e.Paid && e.Completion.Before(now) {
			e.Paid = true
			out = append(out, e)
		}
	}
	return out
}

func (l *Ledger) MatureRedelegations(now time.Time) []*REntry {
	var out []*REntry
	for _, e := range l.R {
		if !e.Done && e.Completion.Before(now) {
			e.Done = true
			out = append(out, e)
		}
	}
	return out
}

func (l *Ledger) PendingU() []*UEntry {
	var out []*UEntry
	for _, e := range l.U {
		if !e.Paid {
			out = append(out, e)
		}
	}
	return out
}

func (l *Ledger) PendingR() []*REntry {
	var out []*REntry
	for _, e := range l.R {
		if !e.Done {
			out = append(out, e)
		}
	}
	return out
}

// storeUnbondingKeys renders the module's pending unbonding entries as a sorted multiset.
func storeUnbondingKeys(s *Snap) []string {
	var out []string
	for _, q := range s.UndelQueue {
		for _, e := range q.Entries {
			del := e.DelegatorAddress
			out = append(out, fmt.Sprintf("%s|%s|%s|%s|%d", del, e.ValidatorAddress, e.Balance.Denom, e.Balance.Amount, q.Completion.UnixNano()))
		}
	}
	sort.Strings(out)
	return out
}

func (l *Ledger) unbondingKeys() []string {
	var out []string
	for _, e := range l.PendingU() {
		out = append(out, l.key(e))
	}
	sort.Strings(out)
	return out
}

// diffMultiset returns elements only in a and only in b.
func diffMultiset(a, b []string) (onlyA, onlyB []string) {
	i, j := 0, 0
	for i < len(a) || j < len(b) {
		switch {
		case j >= len(b) || (i < len(a) && a[i] < b[j]):
			onlyA = append(onlyA, a[i])
			i++
		case i >= len(a) || a[i] > b[j]:
			onlyB = append(onlyB, b[j])
			j++
		default:
			i++
			j++
		}
	}
	return
}

func ratOfInt(i sdkmath.Int) *big.Rat { return ratInt(i) }
