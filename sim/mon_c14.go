package main

import (
	"fmt"
	"math/big"
	"time"

	sdkmath "cosmossdk.io/math"
	sdk "github.com/cosmos/cosmos-sdk/types"
)

// C14 reward weight lifecycle: bounded, exact decay schedule, not retroactive.
type monC14 struct{}

func newMonC14() *monC14           { return &monC14{} }
func (m *monC14) Name() string     { return "C14" }
func (m *monC14) Finish(r *Runner) {}

func powFloatAny(base *big.Float, n uint64) *big.Float {
	res := new(big.Float).SetPrec(c09prec).SetInt64(1)
	b := new(big.Float).SetPrec(c09prec).Set(base)
	for n > 0 {
		if n&1 == 1 {
			res.Mul(res, b)
		}
		n >>= 1
		if n > 0 {
			b.Mul(b, b)
		}
	}
	return res
}

func fDec(d sdkmath.LegacyDec) *big.Float { return new(big.Float).SetPrec(c09prec).SetRat(ratDec(d)) }

func (m *monC14) OnStep(r *Runner, st *Step) {
	pre, post := st.Pre, st.Post
	// (a) the weight always lies within its range
	for _, d := range post.AssetOrder {
		a := post.Assets[d]
		r.Eval("C14.a")
		if a.RewardWeight.IsNil() || a.RewardWeightRange.Min.IsNil() || a.RewardWeightRange.Max.IsNil() ||
			a.RewardWeight.LT(a.RewardWeightRange.Min) || a.RewardWeight.GT(a.RewardWeightRange.Max) {
			r.Violate("C14.a", "weight-out-of-range:"+st.Kind, fmt.Sprintf("asset %s weight %s outside [%s, %s] after %s", d, a.RewardWeight, a.RewardWeightRange.Min, a.RewardWeightRange.Max, st.Name))
			return
		}
	}
	// (f) before its reward start time an asset is not charged the take rate and earns no rewards: its
	// staked total does not shrink at end-of-block and none of its reward indexes moves
	for _, d := range pre.AssetOrder {
		a := pre.Assets[d]
		pa, ok := post.Assets[d]
		if !ok || !post.Time.Before(a.RewardStartTime) {
			continue
		}
		r.Eval("C14.f")
		r.Probe("c14_step_during_warm_up")
		if st.Kind == "end" && pa.TotalTokens.LT(a.TotalTokens) {
			r.Violate("C14.f", "take-rate-during-warm-up", fmt.Sprintf("asset %s: staked total %s -> %s at the end-of-block at %s, before its reward start time %s", d, a.TotalTokens, pa.TotalTokens, post.Time, a.RewardStartTime))
			return
		}
		for _, v := range post.ValOrder {
			old := map[string]sdkmath.LegacyDec{}
			if pv, ok := pre.ValInfos[v]; ok {
				for _, h := range pv.GlobalRewardHistory {
					if h.Alliance == d {
						old[h.Denom] = h.Index
					}
				}
			}
			for _, h := range post.ValInfos[v].GlobalRewardHistory {
				if h.Alliance != d {
					continue
				}
				if o, ok := old[h.Denom]; (ok && h.Index.GT(o)) || (!ok && h.Index.IsPositive()) {
					r.Violate("C14.f", "rewards-during-warm-up", fmt.Sprintf("asset %s on validator %s: reward index for %s grew during %s at %s, before the asset's reward start time %s", d, short(v), h.Denom, st.Name, post.Time, a.RewardStartTime))
					return
				}
			}
		}
	}
	weightChanged := false
	for _, d := range post.AssetOrder {
		if pa, ok := pre.Assets[d]; ok && !pa.RewardWeight.Equal(post.Assets[d].RewardWeight) {
			weightChanged = true
		}
	}
	if st.Kind == "end" {
		T := post.Time
		for _, d := range pre.AssetOrder {
			a := pre.Assets[d]
			pa, ok := post.Assets[d]
			if !ok {
				continue
			}
			// (d) initialisation flips at the first end-of-block at or after the start time
			r.Eval("C14.d")
			wantInit := !T.Before(a.RewardStartTime)
			if pa.IsInitialized != wantInit {
				r.Violate("C14.d", "initialisation", fmt.Sprintf("asset %s: IsInitialized=%v after the end-of-block at %s, reward start time %s", d, pa.IsInitialized, T, a.RewardStartTime))
				return
			}
			if wantInit && !a.IsInitialized {
				r.Probe("c14_warm_up_crossed")
			}
			// (b) exact decay schedule
			I := a.RewardChangeInterval
			due := I > 0 && !a.RewardChangeRate.Equal(sdkmath.LegacyOneDec()) && !a.LastRewardChangeTime.Add(I).After(T)
			r.Eval("C14.b")
			if !due {
				if !pa.RewardWeight.Equal(a.RewardWeight) || !pa.LastRewardChangeTime.Equal(a.LastRewardChangeTime) {
					r.Violate("C14.b", "changed-when-not-due", fmt.Sprintf("asset %s: weight %s -> %s, decay clock %s -> %s although no change interval had elapsed (interval %s, block time %s)", d, a.RewardWeight, pa.RewardWeight, a.LastRewardChangeTime, pa.LastRewardChangeTime, I, T))
					return
				}
				if I > 0 && !a.RewardChangeRate.Equal(sdkmath.LegacyOneDec()) && T.Add(1).Equal(a.LastRewardChangeTime.Add(I)) {
					r.Probe("c14_one_ns_before_decay")
				}
				continue
			}
			r.Nontrivial()
			n := uint64(T.Sub(a.LastRewardChangeTime) / I)
			if n >= 2 {
				r.Probe("c14_multi_interval_decay")
			}
			if T.Equal(a.LastRewardChangeTime.Add(I)) {
				r.Probe("c14_decay_exactly_at_boundary")
			}
			wantLast := a.LastRewardChangeTime.Add(time.Duration(n) * I)
			if !pa.LastRewardChangeTime.Equal(wantLast) || pa.LastRewardChangeTime.After(T) {
				r.Violate("C14.b", "decay-clock", fmt.Sprintf("asset %s: decay clock %s -> %s, expected %s (n=%d, interval %s, block time %s)", d, a.LastRewardChangeTime, pa.LastRewardChangeTime, wantLast, n, I, T))
				return
			}
			mult := powFloatAny(fDec(a.RewardChangeRate), n)
			x := new(big.Float).SetPrec(c09prec).Mul(fDec(a.RewardWeight), mult)
			lo, hi := fDec(a.RewardWeightRange.Min), fDec(a.RewardWeightRange.Max)
			// 18-digit Power: n multiplications each rounding at 10^-18, amplified by the size of the intermediate powers
			big1 := new(big.Float).SetPrec(c09prec).SetInt64(1)
			scale := new(big.Float).SetPrec(c09prec).Set(mult)
			if scale.Cmp(big1) < 0 {
				scale = big1
			}
			errB := new(big.Float).SetPrec(c09prec).Mul(scale, new(big.Float).SetPrec(c09prec).SetFloat64((2*float64(n)+4)*1e-18))
			errB.Mul(errB, new(big.Float).SetPrec(c09prec).Add(fDec(a.RewardWeight), big1))
			got := fDec(pa.RewardWeight)
			okv := false
			xlo := new(big.Float).SetPrec(c09prec).Sub(x, errB)
			xhi := new(big.Float).SetPrec(c09prec).Add(x, errB)
			switch {
			case xhi.Cmp(lo) < 0:
				okv = got.Cmp(lo) == 0
				r.Probe("c14_clamped_at_min")
			case xlo.Cmp(hi) > 0:
				okv = got.Cmp(hi) == 0
				r.Probe("c14_clamped_at_max")
			default:
				// within error of the unclamped value, or of a bound it touches
				clampLo, clampHi := xlo, xhi
				if clampLo.Cmp(lo) < 0 {
					clampLo = lo
				}
				if clampHi.Cmp(hi) > 0 {
					clampHi = hi
				}
				okv = got.Cmp(clampLo) >= 0 && got.Cmp(clampHi) <= 0
			}
			if !okv {
				r.Violate("C14.b", "decay-value", fmt.Sprintf("asset %s: weight %s with rate %s over n=%d intervals became %s; clamp(w x rate^n) = clamp(%s) in [%s, %s]", d, a.RewardWeight, a.RewardChangeRate, n, pa.RewardWeight, x.Text('g', 30), a.RewardWeightRange.Min, a.RewardWeightRange.Max))
				return
			}
		}
	} else if st.Kind != "op" || !st.Res.OK || (st.ROp.Op.K != "gov_update" && st.ROp.Op.K != "gov_create" && st.ROp.Op.K != "gov_delete") {
		// only governance and end-of-block decay may change a weight
		if weightChanged {
			r.Eval("C14.b")
			r.Violate("C14.b", "weight-changed-outside-governance-or-decay", fmt.Sprintf("a reward weight changed during %s", st.Name))
			return
		}
	}
	// (e) decay that is configured (or completed) by a governance update starts counting at the update: an
	// asset that had no change scheduled (rate 1 or no interval) must not be charged change intervals that
	// elapsed before the update
	if st.Kind == "op" && st.Res.OK && st.ROp.Op.K == "gov_update" {
		for _, d := range post.AssetOrder {
			a, ok := pre.Assets[d]
			pa := post.Assets[d]
			if !ok {
				continue
			}
			one := sdkmath.LegacyOneDec()
			hadSchedule := a.RewardChangeInterval > 0 && !a.RewardChangeRate.Equal(one)
			hasSchedule := pa.RewardChangeInterval > 0 && !pa.RewardChangeRate.Equal(one)
			if hadSchedule || !hasSchedule {
				continue
			}
			r.Eval("C14.e")
			r.Probe("c14_decay_configured_by_update")
			if a.RewardChangeInterval > 0 || !a.RewardChangeRate.Equal(one) {
				r.Probe("c14_half_configured_decay_completed")
			}
			if pa.LastRewardChangeTime.Before(post.Time) {
				r.Nontrivial()
				r.Violate("C14.e", "decay-clock-not-restarted", fmt.Sprintf("asset %s had no weight change scheduled (rate %s, interval %s); %s configured rate %s interval %s at %s but the decay clock is %s: %d interval(s) that elapsed before the update will be applied at once",
					d, a.RewardChangeRate, a.RewardChangeInterval, st.Name, pa.RewardChangeRate, pa.RewardChangeInterval, post.Time, pa.LastRewardChangeTime, int64(post.Time.Sub(pa.LastRewardChangeTime)/pa.RewardChangeInterval)))
				return
			}
		}
	}
	// (c) a weight change affects only rewards received afterwards: everything pending must have been
	// settled (at the old weight) by the time the new weight is in force
	if weightChanged {
		r.Eval("C14.c")
		r.Probe("c14_weight_change_" + st.Kind)
		for _, v := range post.StValOrder {
			if _, has := post.ModDels[v]; !has {
				continue
			}
			vi, ok := post.ValInfos[v]
			if !ok || len(vi.ValidatorShares) == 0 {
				continue
			}
			va, _ := sdk.ValAddressFromBech32(v)
			var coins sdk.Coins
			okc, _ := tryMsg(r, func(ctx sdk.Context) error {
				c, err := r.W.App.DistrKeeper.WithdrawDelegationRewards(ctx, r.W.ModuleAddr, va)
				coins = c
				return err
			})
			if okc && !coins.IsZero() {
				r.Violate("C14.c", "pending-rewards-at-weight-change", fmt.Sprintf("after the weight change in %s validator %s still has %s pending in x/distribution: they will be split with the new weights", st.Name, short(v), coins))
				return
			}
			if okc {
				r.Probe("c14_pending_checked")
			}
		}
	}
}
