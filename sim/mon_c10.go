package main

import (
	"fmt"
	"math/big"

	sdkmath "cosmossdk.io/math"
)

// C10 voting power: each bonded validator's alliance stake is rebalanced to target.
type monC10 struct {
	blockStart *Snap
	slashed    bool
}

func newMonC10() *monC10           { return &monC10{} }
func (m *monC10) Name() string     { return "C10" }
func (m *monC10) Finish(r *Runner) {}

// nativeBonded = total bonded - alliance-minted stake on bonded validators (exact).
func nativeBonded(s *Snap) *big.Rat {
	mod := new(big.Rat)
	for _, v := range s.StValOrder {
		if s.StVals[v].IsBonded() {
			mod = radd(mod, s.ModuleStake(v))
		}
	}
	return rsub(ratInt(s.TotalBonded), mod)
}

// targets computes the stated target per bonded validator from a post-state.
func targets(s *Snap) map[string]*big.Rat {
	native := nativeBonded(s)
	out := map[string]*big.Rat{}
	for _, d := range s.AssetOrder {
		a := s.Assets[d]
		if s.Time.Before(a.RewardStartTime) {
			continue
		}
		bondedShares := new(big.Rat)
		for _, v := range s.ValOrder {
			sv, ok := s.StVals[v]
			if !ok || !sv.IsBonded() {
				continue
			}
			bondedShares = radd(bondedShares, ratDec(decCoinsAmount(s.ValInfos[v].ValidatorShares, d)))
		}
		if bondedShares.Sign() <= 0 {
			continue
		}
		for _, v := range s.ValOrder {
			sv, ok := s.StVals[v]
			if !ok || !sv.IsBonded() {
				continue
			}
			vs := ratDec(decCoinsAmount(s.ValInfos[v].ValidatorShares, d))
			if vs.Sign() <= 0 {
				continue
			}
			t := rmul(rmul(ratDec(a.RewardWeight), native), rquo(vs, bondedShares))
			cur, ok := out[v]
			if !ok {
				cur = new(big.Rat)
			}
			out[v] = radd(cur, t)
		}
	}
	return out
}

// targetsCountingDeletedRecords is what the rebalancing computes once an asset's share total counts validator
// records that were deleted (open finding C10-target-counts-shares-of-removed-validator): each bonded validator's
// shares are divided by the asset total minus the shares of the non-bonded records that still exist.
func targetsCountingDeletedRecords(s *Snap) map[string]*big.Rat {
	native := nativeBonded(s)
	out := map[string]*big.Rat{}
	for _, d := range s.AssetOrder {
		a := s.Assets[d]
		if s.Time.Before(a.RewardStartTime) {
			continue
		}
		den := ratDec(a.TotalValidatorShares)
		for _, v := range s.ValOrder {
			if sv, ok := s.StVals[v]; !ok || !sv.IsBonded() {
				den = rsub(den, ratDec(decCoinsAmount(s.ValInfos[v].ValidatorShares, d)))
			}
		}
		if den.Sign() <= 0 {
			continue
		}
		for _, v := range s.ValOrder {
			sv, ok := s.StVals[v]
			if !ok || !sv.IsBonded() {
				continue
			}
			vs := ratDec(decCoinsAmount(s.ValInfos[v].ValidatorShares, d))
			if vs.Sign() <= 0 {
				continue
			}
			cur, ok := out[v]
			if !ok {
				cur = new(big.Rat)
			}
			out[v] = radd(cur, rmul(rmul(ratDec(a.RewardWeight), native), rquo(vs, den)))
		}
	}
	return out
}

func (m *monC10) triggered(r *Runner, a, b *Snap) (bool, string) {
	if m.slashed {
		return true, "slash"
	}
	for d, x := range a.Assets {
		y, ok := b.Assets[d]
		if !ok || !x.TotalTokens.Equal(y.TotalTokens) || !x.TotalValidatorShares.Equal(y.TotalValidatorShares) {
			return true, "alliance-stake"
		}
		if !x.RewardWeight.Equal(y.RewardWeight) {
			return true, "reward-weight"
		}
		if a.Time.Before(x.RewardStartTime) != b.Time.Before(y.RewardStartTime) {
			return true, "warm-up-ended"
		}
	}
	if len(a.Assets) != len(b.Assets) {
		return true, "asset-set"
	}
	for v, x := range a.ValInfos {
		y := b.ValInfos[v]
		if fmt.Sprint(x.ValidatorShares) != fmt.Sprint(y.ValidatorShares) {
			return true, "alliance-stake"
		}
	}
	for v, x := range a.StVals {
		y, ok := b.StVals[v]
		if !ok || x.Status != y.Status || x.Jailed != y.Jailed {
			return true, "bond-status"
		}
	}
	if len(a.StVals) != len(b.StVals) {
		return true, "validator-set"
	}
	if nativeBonded(a).Cmp(nativeBonded(b)) != 0 {
		return true, "native-stake"
	}
	return false, ""
}

func (m *monC10) OnStep(r *Runner, st *Step) {
	if st.Kind == "begin" {
		m.blockStart = st.Pre
		m.slashed = false
	}
	if len(st.Slashes) > 0 {
		m.slashed = true
	}
	if st.Kind == "op" && st.Res.OK {
		switch st.ROp.Op.K {
		case "n_undelegate":
			if st.ROp.Op.Amt != nil && st.ROp.Op.Amt.All {
				r.Probe("c10_full_native_undelegation")
			}
		case "n_delegate", "n_redelegate":
			r.Probe("c10_native_stake_change")
		}
	}
	if st.Kind != "end" || m.blockStart == nil {
		return
	}
	pre, post := st.Pre, st.Post
	// (b) unbonded or jailed validators are not adjusted by the end-of-block
	for _, v := range post.StValOrder {
		sv := post.StVals[v]
		pv, ok := pre.StVals[v]
		if sv.IsBonded() || !ok || pv.IsBonded() {
			continue
		}
		r.Eval("C10.b")
		a, aok := pre.ModDels[v]
		b, bok := post.ModDels[v]
		if aok != bok || (aok && !a.Equal(b)) {
			r.Violate("C10.b", "non-bonded-adjusted", fmt.Sprintf("validator %s is %s but its alliance-minted delegation changed %v -> %v at end-of-block", short(v), sv.Status, a, b))
			return
		}
		if aok {
			r.Probe("c10_non_bonded_with_module_stake")
		}
	}
	trig, why := m.triggered(r, m.blockStart, post)
	tg := targets(post)
	hasStake := false
	worst := new(big.Rat)
	worstV := ""
	for _, v := range post.StValOrder {
		if !post.StVals[v].IsBonded() {
			continue
		}
		want, ok := tg[v]
		if !ok {
			want = new(big.Rat)
		}
		got := post.ModuleStake(v)
		if want.Sign() > 0 || got.Sign() > 0 {
			hasStake = true
		}
		diff := rabs(rsub(got, want))
		if diff.Cmp(worst) > 0 {
			worst, worstV = diff, v
		}
	}
	if !hasStake {
		return
	}
	if trig {
		r.Nontrivial()
		r.Probe("c10_trigger_" + why)
	}
	for _, v := range post.StValOrder {
		if !post.StVals[v].DelegatorShares.Equal(sdkmath.LegacyNewDecFromInt(post.StVals[v].Tokens)) && post.StVals[v].IsBonded() {
			r.Probe("c10_exchange_rate_not_one")
			break
		}
	}
	// two base units, plus the fixed-point error of the target computation itself
	wt := tg[worstV]
	if wt == nil {
		wt = new(big.Rat)
	}
	tol := radd(big.NewRat(2, 1), rmul(maxRat(wt, big.NewRat(1, 1)), big.NewRat(1, 1_000_000_000_000_000)))
	// Calibration (DESIGN 5/C10): the module measures native stake as an integer, truncating the token value of
	// each of its own delegations. Where a validator's exchange rate is not 1 (after a real slash) that value
	// is fractional, so native stake is mis-measured by up to one base unit per such delegation, and every
	// target inherits that error multiplied by the sum of started reward weights.
	// (the measurement is taken before the adjustments, so delegations that existed when end-of-block began count too)
	k := int64(0)
	for _, v := range post.StValOrder {
		sv := post.StVals[v]
		_, hasPost := post.ModDels[v]
		_, hasPre := pre.ModDels[v]
		if (hasPost || hasPre) && !sv.DelegatorShares.Equal(sdkmath.LegacyNewDecFromInt(sv.Tokens)) {
			k++
		}
	}
	if k > 0 {
		W := new(big.Rat)
		for _, d := range post.AssetOrder {
			a := post.Assets[d]
			if !post.Time.Before(a.RewardStartTime) {
				W = radd(W, ratDec(a.RewardWeight))
			}
		}
		tol = radd(tol, rmul(radd(W, big.NewRat(1, 1)), big.NewRat(k, 1)))
	}
	if worst.Cmp(tol) <= 0 {
		r.Eval("C10.a")
		return
	}
	if !trig {
		r.Probe("c10_stale_without_trigger_in_this_block")
		return
	}
	r.Eval("C10.a")
	want := tg[worstV]
	if want == nil {
		want = new(big.Rat)
	}
	for _, d := range post.AssetOrder {
		// the asset's share total still counts a validator record that was deleted when x/staking removed the
		// validator (open finding): the bonded validators' fractions of it no longer add up to one
		if a := post.Assets[d]; r.StrandedDenoms[d] && a.RewardWeight.IsPositive() && !post.Time.Before(a.RewardStartTime) {
			// ... and that explains what every bonded validator carries (anything else is reported as usual)
			alt := targetsCountingDeletedRecords(post)
			explained := true
			for _, v := range post.StValOrder {
				if !post.StVals[v].IsBonded() {
					continue
				}
				w := alt[v]
				if w == nil {
					w = new(big.Rat)
				}
				if rabs(rsub(post.ModuleStake(v), w)).Cmp(tol) > 0 {
					explained = false
				}
			}
			if explained {
				why = "shares-of-validator-removed-by-staking"
			}
			break
		}
	}
	r.Violate("C10.a", "off-target:"+why, fmt.Sprintf("after a block with a %s change validator %s carries %s alliance-minted stake, target %s (native bonded %s)", why, short(worstV), rstr(post.ModuleStake(worstV)), rstr(want), rstr(nativeBonded(post))))
}
