package main

import (
	"fmt"
	"math/big"
	"os"
	"sort"
	"strings"

	sdkmath "cosmossdk.io/math"
	sdk "github.com/cosmos/cosmos-sdk/types"

	alliancetypes "github.com/terra-money/alliance/x/alliance/types"
)

// C12 reward pool solvency: claimable rewards never exceed what the pool received.
//
// After every step: read the pool balance B(d) and every position's accrued entitlement (what the
// reward indexes assign to it right now) to get E(d). deficit(d) = E(d) - B(d) must never be
// positive, and it must not grow in a step (clause c: value-changing events must not inflate accrued
// entitlements). Separately, on one discarded branch of the real state, every validator's pending
// x/distribution rewards are settled and all positions claim sequentially in a rotating order (clause a).
type monC12 struct {
	step            int
	deficit         map[string]*big.Rat
	ent             map[PosKey]sdk.Coins
	precisionLoss   bool
	dead            bool
	maxTokens       *big.Rat
	inflatedBySlash bool
}

func newMonC12() *monC12 {
	return &monC12{deficit: map[string]*big.Rat{}, ent: map[PosKey]sdk.Coins{}}
}
func (m *monC12) Name() string     { return "C12" }
func (m *monC12) Finish(r *Runner) {}

// topUp gives the rewards pool (on a discarded branch) far more than anyone could claim.
func topUp(r *Runner, ctx sdk.Context) {
	big1 := sdkmath.NewIntFromBigInt(new(big.Int).Exp(big.NewInt(10), big.NewInt(45), nil))
	var coins sdk.Coins
	for _, d := range append([]string{BondDenom, FeeDenom}, AllianceDenoms[:len(r.W.Cfg.Assets)]...) {
		coins = coins.Add(sdk.NewCoin(d, big1))
	}
	if err := r.W.App.BankKeeper.MintCoins(ctx, alliancetypes.ModuleName, coins); err != nil {
		return
	}
	_ = r.W.App.BankKeeper.SendCoinsFromModuleToModule(ctx, alliancetypes.ModuleName, alliancetypes.RewardsPoolName, coins)
}

// settleAll withdraws and indexes the pending rewards of every validator on ctx.
func settleAll(r *Runner, ctx sdk.Context, s *Snap) {
	for _, v := range s.StValOrder {
		va, err := sdk.ValAddressFromBech32(v)
		if err != nil {
			continue
		}
		func() {
			defer func() { _ = recover() }()
			av, err := r.W.App.AllianceKeeper.GetAllianceValidator(ctx, va)
			if err != nil {
				return
			}
			c, e := r.W.App.AllianceKeeper.ClaimValidatorRewards(ctx, av)
			if os.Getenv("VERIF_C12_DEBUG") != "" {
				fmt.Fprintf(os.Stderr, "      settle %s -> %s err=%v\n", short(v), c, e)
			}
		}()
	}
}

// measureAccrued returns the real pool balance and every position's *accrued* entitlement: what the
// reward indexes already assign to it (index difference x current token value, through the weight
// change snapshots), without settling anything that is still pending in x/distribution. Pending
// rewards are deliberately left out of clause c: how a future settlement will be split is not an
// accrued entitlement, and a hypothetical settlement that assigns part of a reward to nobody (e.g.
// while an asset has a staked total but no validator shares after a 100 % slash, every validator
// counts as holding that asset's whole total) would mask an existing deficit and un-mask it again in
// an unrelated step (seed 8 false alarm, DESIGN 6.3).
func measureAccrued(r *Runner, s *Snap) (pool sdk.Coins, ent map[PosKey]sdk.Coins, failed int) {
	return measureAccruedAt(r, r.Branch(), s)
}

func measureAccruedAt(r *Runner, ctx sdk.Context, s *Snap) (pool sdk.Coins, ent map[PosKey]sdk.Coins, failed int) {
	pool = r.W.App.BankKeeper.GetAllBalances(ctx, r.W.RewardsAddr)
	ent = map[PosKey]sdk.Coins{}
	k := r.W.App.AllianceKeeper
	for _, pk := range s.DelOrder {
		func() {
			defer func() {
				if rec := recover(); rec != nil {
					failed++
					if os.Getenv("VERIF_C12_DEBUG") != "" {
						fmt.Fprintf(os.Stderr, "      measure %v panics: %v\n", pk, rec)
					}
				}
			}()
			asset, found := k.GetAssetByDenom(ctx, pk.Denom)
			if !found {
				failed++
				return
			}
			if !asset.RewardsStarted(ctx.BlockTime()) {
				ent[pk] = sdk.NewCoins()
				return
			}
			va, err := sdk.ValAddressFromBech32(pk.Val)
			if err != nil {
				failed++
				return
			}
			da, err := sdk.AccAddressFromBech32(pk.Del)
			if err != nil {
				failed++
				return
			}
			val, err := k.GetAllianceValidator(ctx, va)
			if err != nil {
				failed++
				return
			}
			del, found := k.GetDelegation(ctx, da, va, pk.Denom)
			if !found {
				failed++
				return
			}
			coins, _, err := k.CalculateDelegationRewards(ctx, del, val, asset)
			if err != nil {
				failed++
				return
			}
			ent[pk] = coins
		}()
	}
	return
}

func (m *monC12) OnStep(r *Runner, st *Step) {
	if m.dead {
		return
	}
	if hookFailed(st) {
		// open finding C08-hook-fails-on-reward-pool-shortfall: x/staking only logs the error, so whatever the hook
		// did before it failed stays - including the first denominations of the multi-denomination payout that
		// failed (debited from the pool, credited to nobody). Pool and entitlements no longer mean anything.
		m.dead = true
		r.Probe("run_abandoned_after_hook_error")
		return
	}
	m.step++
	post := st.Post
	// a validator holding less than 10^-9 of an asset's shares: the module's 18-digit quotient vs/S keeps fewer
	// than 9 significant digits, so its token value (the divisor of the reward index) is off by more than 10^-9 relative
	for _, v := range post.ValOrder {
		for _, c := range post.ValInfos[v].ValidatorShares {
			if a, ok := post.Assets[c.Denom]; ok && a.TotalValidatorShares.IsPositive() && c.Amount.IsPositive() {
				if rquo(ratDec(c.Amount), ratDec(a.TotalValidatorShares)).Cmp(big.NewRat(1, 1_000_000_000)) < 0 {
					if !m.precisionLoss {
						r.Probe("c12_validator_fraction_below_1e-9")
					}
					m.precisionLoss = true
				}
			}
		}
	}
	sumT := new(big.Rat)
	for _, a := range post.Assets {
		sumT = radd(sumT, ratInt(a.TotalTokens))
	}
	if m.maxTokens == nil || sumT.Cmp(m.maxTokens) > 0 {
		m.maxTokens = sumT
	}
	// index rounding: each settlement rounds the per-token index at 10^-18, i.e. up to one ulp per staked token
	perSettlement := radd(rmul(m.maxTokens, big.NewRat(1, 1_000_000_000_000_000_000)), big.NewRat(1, 1))
	nSettle := int64(len(post.DelOrder) + len(post.StValOrder) + 1)
	roundTol := rmul(perSettlement, big.NewRat(nSettle, 1))

	pool, ent, failed := measureAccrued(r, post)
	if os.Getenv("VERIF_C12_DEBUG") != "" {
		fmt.Fprintf(os.Stderr, "C12DEBUG %s pool=%s\n", st.Name, pool)
		if st.Pre != nil {
			addrs := map[string]bool{}
			for a := range st.Pre.Bal {
				addrs[a] = true
			}
			for a := range post.Bal {
				addrs[a] = true
			}
			for _, a := range sortedKeys(addrs) {
				if !st.Pre.Bal[a].Equal(post.Bal[a]) {
					fmt.Fprintf(os.Stderr, "   bal %s: %s -> %s\n", short(a), st.Pre.Bal[a], post.Bal[a])
				}
			}
		}
		for _, l := range st.Logs {
			fmt.Fprintf(os.Stderr, "   log %s\n", clip(fmt.Sprint(l), 300))
		}
		for _, e := range st.Events {
			if e.Type == "coin_received" || e.Type == "coin_spent" {
				fmt.Fprintf(os.Stderr, "   event %s %s %s\n", e.Type, short(attr(e, "receiver")+attr(e, "spender")), attr(e, "amount"))
			}
		}
		if st.Pre != nil && !st.Pre.Supply.Equal(post.Supply) {
			fmt.Fprintf(os.Stderr, "   supply %s -> %s\n", st.Pre.Supply, post.Supply)
		}
		for _, f := range flowsOf(st.Events) {
			if f.Kind == "transfer" && (f.From == r.W.RewardsAddr.String() || f.To == r.W.RewardsAddr.String()) {
				fmt.Fprintf(os.Stderr, "   flow %s -> %s %s\n", short(f.From), short(f.To), f.Coins)
			}
		}
		for _, pk := range post.DelOrder {
			fmt.Fprintf(os.Stderr, "   %s@%s/%s value=%s shares=%s ent=%s\n", short(pk.Del), short(pk.Val), pk.Denom, rstr(post.PosValue(pk)), post.Dels[pk].Shares, ent[pk])
		}
	}
	if failed > 0 {
		r.Probe("c12_entitlement_not_measurable")
	}
	if len(post.DelOrder) == 0 {
		m.ent = ent
		m.deficit = map[string]*big.Rat{}
		return
	}
	r.Nontrivial()
	// E(d) and the token-rounding bound
	E := map[string]*big.Rat{}
	rounder := map[string]*big.Rat{}
	fracBound := map[string]*big.Rat{}
	for _, pk := range post.DelOrder {
		v := post.PosValue(pk)
		// relative error of the module's 18-digit quotient validatorShares/totalShares for this position's validator
		// (the state before the step counts too: the rounding of the old quotient is what the new one is compared with)
		relErr := new(big.Rat)
		for _, sn := range []*Snap{st.Pre, post} {
			if sn == nil {
				continue
			}
			re := new(big.Rat)
			if a, ok := sn.Assets[pk.Denom]; ok && a.TotalValidatorShares.IsPositive() {
				if vs := ratDec(decCoinsAmount(sn.ValInfos[pk.Val].ValidatorShares, pk.Denom)); vs.Sign() > 0 {
					re = rmul(rquo(ratDec(a.TotalValidatorShares), vs), big.NewRat(4, 1_000_000_000_000_000_000))
				}
			}
			// ... and of delegationShares/validator's delegator shares
			if dl, ok := sn.Dels[pk]; ok {
				if sh := ratDec(dl.Shares); sh.Sign() > 0 {
					D := ratDec(decCoinsAmount(sn.ValInfos[pk.Val].TotalDelegatorShares, pk.Denom))
					re = radd(re, rmul(rquo(D, sh), big.NewRat(4, 1_000_000_000_000_000_000)))
				}
			}
			relErr = maxRat(relErr, re)
		}
		// the floor(value + 0.01) effect cuts both ways (a position worth 3.9 is paid for 3 tokens): when the share
		// of a reward that goes through such a position shrinks in a step, the aggregate entitlement grows by up
		// to one token's worth of what the position could claim before the step
		if v.Sign() > 0 {
			for _, c := range m.ent[pk] {
				rounder[c.Denom] = radd(getR(rounder, c.Denom), radd(rquo(ratInt(c.Amount), v), big.NewRat(1, 1)))
			}
		}
		for _, c := range ent[pk] {
			fracBound[c.Denom] = radd(getR(fracBound, c.Denom), rmul(ratInt(c.Amount), relErr))
			E[c.Denom] = radd(getR(E, c.Denom), ratInt(c.Amount))
			if v.Sign() > 0 {
				// payouts use floor(value + 0.01) tokens: up to one token's worth of entitlement beyond the exact share
				rounder[c.Denom] = radd(getR(rounder, c.Denom), radd(rquo(ratInt(c.Amount), v), big.NewRat(1, 1)))
			}
		}
	}
	if len(st.Slashes) > 0 {
		for _, e := range m.ent {
			if !e.IsZero() {
				r.Probe("c12_slash_with_accrued_unclaimed_rewards")
				break
			}
		}
	}
	if st.Kind == "end" {
		for d, a := range st.Pre.Assets {
			if pa, ok := post.Assets[d]; ok && pa.TotalTokens.LT(a.TotalTokens) && len(m.ent) > 0 {
				r.Probe("c12_take_rate_between_accrual_and_claim")
			}
		}
	}
	for _, f := range flowsOf(st.Events) {
		if f.Kind == "transfer" && f.To == r.W.RewardsAddr.String() && !f.Coins.IsZero() {
			r.Probe("c12_settlement")
		}
	}
	// (c)/(b) the deficit per denom and its growth in this step
	denoms := map[string]bool{}
	for d := range E {
		denoms[d] = true
	}
	for d := range m.deficit {
		denoms[d] = true
	}
	newDef := map[string]*big.Rat{}
	for _, d := range sortedKeys(denoms) {
		def := rsub(getR(E, d), ratInt(pool.AmountOf(d)))
		newDef[d] = def
		r.Eval("C12.c")
		prev := getR(m.deficit, d)
		// only positive territory matters: a surplus shrinking is not an inflation
		grow := rsub(maxRat(def, new(big.Rat)), maxRat(prev, new(big.Rat)))
		if grow.Cmp(roundTol) <= 0 {
			if grow.Sign() > 0 {
				r.Probe("c12_deficit_grew_within_index_rounding")
			}
			continue
		}
		cls := "entitlement-inflated:" + st.Kind + ":" + stepOpKind(st)
		// The mechanism behind the open findings: an entitlement is (index difference) x (the position's current
		// token count floor(value + 0.01)), so it scales with the token count whenever that moves without a claim.
		// revalBound is the part of the entitlements measured now that such a move explains, over positions whose
		// shares did not change in this step (a position that was topped up or cut has been settled by the module).
		revalBound := new(big.Rat)
		for _, pk := range post.DelOrder {
			pd, ok := st.Pre.Dels[pk]
			if !ok || !pd.Shares.Equal(post.Dels[pk].Shares) {
				continue
			}
			amt := ent[pk].AmountOf(d)
			if !amt.IsPositive() {
				continue
			}
			vpre, vpost := st.Pre.PosValue(pk), post.PosValue(pk)
			eps := radd(rmul(radd(vpre, vpost), big.NewRat(1, 1_000_000_000_000)), big.NewRat(1, 1_000_000))
			tlo := new(big.Rat).SetInt(rfloor(rsub(radd(vpre, ratCent), eps)))
			if tlo.Sign() < 0 {
				tlo = new(big.Rat)
			}
			thi := new(big.Rat).SetInt(rfloor(radd(radd(vpost, ratCent), eps)))
			if thi.Sign() <= 0 || thi.Cmp(tlo) <= 0 {
				continue
			}
			revalBound = radd(revalBound, rmul(ratInt(amt), rsub(big.NewRat(1, 1), rquo(tlo, thi))))
		}
		// ... and the part that a settlement in this step explains: rewards are indexed per exact token of the
		// validator but paid per floor(value + 0.01) tokens of the position, up to 0.01 token more than it holds
		for _, pk := range post.DelOrder {
			de := ent[pk].AmountOf(d).Sub(m.ent[pk].AmountOf(d))
			if !de.IsPositive() {
				continue
			}
			vpost := post.PosValue(pk)
			thi := new(big.Rat).SetInt(rfloor(radd(vpost, big.NewRat(2, 100))))
			if thi.Sign() <= 0 {
				thi = big.NewRat(1, 1)
			}
			revalBound = radd(revalBound, radd(rmul(ratInt(de), rquo(big.NewRat(102, 10000), thi)), big.NewRat(1, 1)))
		}
		// ... and payouts made in this step right after a settlement (an implicit or explicit claim): same 0.01 token
		for _, f := range flowsOf(st.Events) {
			if f.Kind == "transfer" && f.From == r.W.RewardsAddr.String() {
				if a := f.Coins.AmountOf(d); a.IsPositive() {
					revalBound = radd(revalBound, radd(rmul(ratInt(a), big.NewRat(102, 10000)), big.NewRat(1, 1)))
				}
			}
		}
		// ... and at a slash: the hook claims for redelegation destinations after the bonded slash has already raised
		// their value, so what it pays out is inflated by the same factor
		if len(st.Slashes) > 0 {
			gmax := big.NewRat(1, 1)
			// the redistribution factor of each slash: the asset's staked total stays, so everything not on the slashed
			// validator scales by T / (T - f x K)
			for _, so := range st.Slashes {
				for _, dn := range st.Pre.AssetOrder {
					T := ratInt(st.Pre.Assets[dn].TotalTokens)
					K := st.Pre.ValTokens(so.Val, dn)
					den := rsub(T, rmul(ratDec(so.Fraction), K))
					if T.Sign() <= 0 || K.Sign() <= 0 {
						continue
					}
					g := new(big.Rat).SetInt(new(big.Int).Exp(big.NewInt(10), big.NewInt(40), nil))
					if den.Sign() > 0 {
						g = rquo(T, den)
					}
					if rmul(gmax, g).Cmp(gmax) > 0 {
						gmax = rmul(gmax, g)
					}
				}
			}
			for _, pk := range post.DelOrder {
				if pd, ok := st.Pre.Dels[pk]; ok && pd.Shares.Equal(post.Dels[pk].Shares) {
					if vpre := st.Pre.PosValue(pk); vpre.Sign() > 0 {
						if g := rquo(post.PosValue(pk), vpre); g.Cmp(gmax) > 0 {
							gmax = g
						}
					}
				}
			}
			// ... including what was still pending in x/distribution: the hook settles it and pays it out at the
			// inflated value in the same step
			if gmax.Cmp(big.NewRat(1, 1)) > 0 {
				for _, f := range flowsOf(st.Events) {
					if f.Kind == "transfer" && f.From == r.W.RewardsAddr.String() {
						if a := f.Coins.AmountOf(d); a.IsPositive() {
							revalBound = radd(revalBound, radd(rmul(ratInt(a), rsub(big.NewRat(1, 1), rquo(big.NewRat(1, 1), gmax))), big.NewRat(1, 1)))
						}
					}
				}
			}
			for pk, e := range m.ent {
				// claimed by the hook in this step: its entitlement is gone (or smaller) afterwards
				if !ent[pk].AmountOf(d).LT(e.AmountOf(d)) {
					continue
				}
				revalBound = radd(revalBound, radd(rmul(ratInt(e.AmountOf(d)), rsub(gmax, big.NewRat(1, 1))), big.NewRat(1, 1)))
			}
		}
		revalBound = radd(revalBound, roundTol)
		switch {
		case len(st.Slashes) > 0 && grow.Cmp(revalBound) <= 0:
			cls = "entitlement-inflated-by-slash"
		case grow.Cmp(revalBound) <= 0:
			cls = "entitlement-inflated:token-rounding"
		case grow.Cmp(radd(revalBound, getR(fracBound, d))) <= 0:
			cls = "entitlement-inflated:validator-fraction-precision-loss"
		}
		if len(st.Slashes) > 0 {
			m.inflatedBySlash = true
		}
		r.Violate("C12.c", cls, fmt.Sprintf("%s: accrued entitlements in %s exceed what the pool holds by %s (before this step: %s); nothing was received for the difference", st.Name, d, rstr(def), rstr(prev)))
		if r.failed() {
			return
		}
	}
	m.deficit = newDef
	m.ent = ent
	// (a) claiming for every delegation, in a rotating order, on one discarded branch of the real state
	r.Eval("C12.a")
	order := append([]PosKey{}, post.DelOrder...)
	n := len(order)
	rot := m.step % n
	order = append(order[rot:], order[:rot]...)
	if (m.step/n)%2 == 1 {
		rev := make([]PosKey, n)
		for i := range order {
			rev[n-1-i] = order[i]
		}
		order = rev
	}
	ctx := r.Branch()
	settleAll(r, ctx, post) // everything the pool is going to receive for the rewards accrued so far
	// what each position can claim once everything is settled, and the rounding bounds that go with it: the
	// settlement of the pending rewards assigns them through floor(value + 0.01) tokens and 18-digit quotients too
	_, claimable, _ := measureAccruedAt(r, ctx, post)
	tokenBoundA := map[string]*big.Rat{}
	fracBoundA := map[string]*big.Rat{}
	for _, pk := range post.DelOrder {
		v := post.PosValue(pk)
		relErr := new(big.Rat)
		if a, ok := post.Assets[pk.Denom]; ok && a.TotalValidatorShares.IsPositive() {
			if vs := ratDec(decCoinsAmount(post.ValInfos[pk.Val].ValidatorShares, pk.Denom)); vs.Sign() > 0 {
				relErr = rmul(rquo(ratDec(a.TotalValidatorShares), vs), big.NewRat(4, 1_000_000_000_000_000_000))
			}
		}
		if sh := ratDec(post.Dels[pk].Shares); sh.Sign() > 0 {
			D := ratDec(decCoinsAmount(post.ValInfos[pk.Val].TotalDelegatorShares, pk.Denom))
			relErr = radd(relErr, rmul(rquo(D, sh), big.NewRat(4, 1_000_000_000_000_000_000)))
		}
		for _, c := range claimable[pk] {
			if v.Sign() > 0 {
				tokenBoundA[c.Denom] = radd(getR(tokenBoundA, c.Denom), radd(rquo(ratInt(c.Amount), v), big.NewRat(1, 1)))
			}
			fracBoundA[c.Denom] = radd(getR(fracBoundA, c.Denom), rmul(ratInt(c.Amount), relErr))
		}
	}
	for _, pk := range order {
		ok, e := func() (ok bool, e string) {
			defer func() {
				if rec := recover(); rec != nil {
					ok, e = false, fmt.Sprintf("panic: %v", rec)
				}
			}()
			_, err := r.MS.ClaimDelegationRewards(ctx, alliancetypes.NewMsgClaimDelegationRewards(pk.Del, pk.Val, pk.Denom))
			if err != nil {
				return false, err.Error()
			}
			return true, ""
		}()
		if ok {
			continue
		}
		if !(strings.Contains(e, "insufficient funds") && strings.Contains(e, "spendable balance")) {
			r.Probe("c12_claim_failed_for_other_reason") // C05's territory
			continue
		}
		need, have, denom := parseShortfall(e)
		short := rsub(need, have)
		cls := "pool-shortfall"
		def := maxRat(getR(newDef, denom), new(big.Rat))
		switch {
		case short.Cmp(roundTol) <= 0:
			cls = "pool-shortfall:index-rounding"
		case short.Cmp(radd(def, roundTol)) <= 0:
			// consequence of the deficit that clause c already attributed (to an open finding, or reported)
			cls = "pool-shortfall:accrued-deficit"
		case short.Cmp(radd(radd(def, roundTol), getR(tokenBoundA, denom))) <= 0:
			// the pending rewards settled above are assigned through floor(value + 0.01) tokens: a position worth
			// 68.997 is paid as 69 tokens of an index that was divided by 68.997
			cls = "pool-shortfall:token-rounding"
		case short.Cmp(radd(radd(radd(def, roundTol), getR(tokenBoundA, denom)), getR(fracBoundA, denom))) <= 0:
			cls = "pool-shortfall:validator-fraction-precision-loss"
		}
		r.Violate("C12.a", cls, fmt.Sprintf("claiming for all %d positions: %s fails: pool holds %s %s, claim needs %s (measured deficit %s, index-rounding tolerance %s)", n, pk, rstr(have), denom, rstr(need), rstr(def), rstr(roundTol)))
		return
	}
}

func getR(m map[string]*big.Rat, k string) *big.Rat {
	if v, ok := m[k]; ok {
		return v
	}
	return new(big.Rat)
}

// parseShortfall extracts "spendable balance X<denom> is smaller than Y<denom>".
func parseShortfall(e string) (need, have *big.Rat, denom string) {
	need, have = new(big.Rat), new(big.Rat)
	i := strings.Index(e, "spendable balance ")
	j := strings.Index(e, " is smaller than ")
	if i < 0 || j < 0 {
		return
	}
	a := e[i+len("spendable balance ") : j]
	rest := e[j+len(" is smaller than "):]
	k := strings.IndexAny(rest, ": ")
	if k > 0 {
		rest = rest[:k]
	}
	ca, err1 := sdk.ParseCoinNormalized(a)
	cb, err2 := sdk.ParseCoinNormalized(rest)
	if err1 == nil {
		have = ratInt(ca.Amount)
		denom = ca.Denom
	}
	if err2 == nil {
		need = ratInt(cb.Amount)
		denom = cb.Denom
	}
	return
}

var _ = sort.Strings

// fullySlashedAsset: some asset keeps a positive staked total while no validator holds shares of it
// (every validator that held it was slashed by 100 %). The module then values every validator as
// holding the asset's whole total (ConvertNewShareToDecToken returns totalTokens when totalShares is zero).
func fullySlashedAsset(s *Snap) bool {
	if s == nil {
		return false
	}
	for _, a := range s.Assets {
		if a.TotalTokens.IsPositive() && a.TotalValidatorShares.IsZero() {
			return true
		}
	}
	return false
}
