package main

import (
	"fmt"
	"os"
	"math/big"
	"sort"
	"strings"

	sdkmath "cosmossdk.io/math"
	sdk "github.com/cosmos/cosmos-sdk/types"

	alliancetypes "github.com/terra-money/alliance/x/alliance/types"
)

// C12 reward pool solvency: claimable rewards never exceed what the pool received.
//
// After every step: read the pool balance B(d) and every position's accrued entitlement (what the
// reward indexes assign to it right now) to get E(d). deficit(d) = E(d) - B(d) must never be
// positive, and it must not grow in a step (clause c: value-changing events must not inflate accrued
// entitlements). Separately, on one discarded branch of the real state, every validator's pending
// x/distribution rewards are settled and all positions claim sequentially in a rotating order (clause a).
type monC12 struct {
	step            int
	deficit         map[string]*big.Rat
	ent             map[PosKey]sdk.Coins
	precisionLoss   bool
	maxTokens       *big.Rat
	inflatedBySlash bool
}

func newMonC12() *monC12 {
	return &monC12{deficit: map[string]*big.Rat{}, ent: map[PosKey]sdk.Coins{}}
}
func (m *monC12) Name() string     { return "C12" }
func (m *monC12) Finish(r *Runner) {}

// topUp gives the rewards pool (on a discarded branch) far more than anyone could claim.
func topUp(r *Runner, ctx sdk.Context) {
	big1 := sdkmath.NewIntFromBigInt(new(big.Int).Exp(big.NewInt(10), big.NewInt(45), nil))
	var coins sdk.Coins
	for _, d := range append([]string{BondDenom, FeeDenom}, AllianceDenoms[:len(r.W.Cfg.Assets)]...) {
		coins = coins.Add(sdk.NewCoin(d, big1))
	}
	if err := r.W.App.BankKeeper.MintCoins(ctx, alliancetypes.ModuleName, coins); err != nil {
		return
	}
	_ = r.W.App.BankKeeper.SendCoinsFromModuleToModule(ctx, alliancetypes.ModuleName, alliancetypes.RewardsPoolName, coins)
}

// settleAll withdraws and indexes the pending rewards of every validator on ctx.
func settleAll(r *Runner, ctx sdk.Context, s *Snap) {
	for _, v := range s.StValOrder {
		va, err := sdk.ValAddressFromBech32(v)
		if err != nil {
			continue
		}
		func() {
			defer func() { _ = recover() }()
			av, err := r.W.App.AllianceKeeper.GetAllianceValidator(ctx, va)
			if err != nil {
				return
			}
			c, e := r.W.App.AllianceKeeper.ClaimValidatorRewards(ctx, av)
			if os.Getenv("VERIF_C12_DEBUG") != "" {
				fmt.Fprintf(os.Stderr, "      settle %s -> %s err=%v\n", short(v), c, e)
			}
		}()
	}
}

// measureAccrued returns the real pool balance and every position's *accrued* entitlement: what the
// reward indexes already assign to it (index difference x current token value, through the weight
// change snapshots), without settling anything that is still pending in x/distribution. Pending
// rewards are deliberately left out of clause c: how a future settlement will be split is not an
// accrued entitlement, and a hypothetical settlement that assigns part of a reward to nobody (e.g.
// while an asset has a staked total but no validator shares after a 100 % slash, every validator
// counts as holding that asset's whole total) would mask an existing deficit and un-mask it again in
// an unrelated step (seed 8 false alarm, DESIGN 6.3).
func measureAccrued(r *Runner, s *Snap) (pool sdk.Coins, ent map[PosKey]sdk.Coins, failed int) {
	return measureAccruedAt(r, r.Branch(), s)
}

func measureAccruedAt(r *Runner, ctx sdk.Context, s *Snap) (pool sdk.Coins, ent map[PosKey]sdk.Coins, failed int) {
	pool = r.W.App.BankKeeper.GetAllBalances(ctx, r.W.RewardsAddr)
	ent = map[PosKey]sdk.Coins{}
	k := r.W.App.AllianceKeeper
	for _, pk := range s.DelOrder {
		func() {
			defer func() {
				if rec := recover(); rec != nil {
					failed++
				}
			}()
			asset, found := k.GetAssetByDenom(ctx, pk.Denom)
			if !found {
				failed++
				return
			}
			if !asset.RewardsStarted(ctx.BlockTime()) {
				ent[pk] = sdk.NewCoins()
				return
			}
			va, err := sdk.ValAddressFromBech32(pk.Val)
			if err != nil {
				failed++
				return
			}
			da, err := sdk.AccAddressFromBech32(pk.Del)
			if err != nil {
				failed++
				return
			}
			val, err := k.GetAllianceValidator(ctx, va)
			if err != nil {
				failed++
				return
			}
			del, found := k.GetDelegation(ctx, da, va, pk.Denom)
			if !found {
				failed++
				return
			}
			coins, _, err := k.CalculateDelegationRewards(ctx, del, val, asset)
			if err != nil {
				failed++
				return
			}
			ent[pk] = coins
		}()
	}
	return
}

func (m *monC12) OnStep(r *Runner, st *Step) {
	m.step++
	post := st.Post
	// a validator holding less than 10^-9 of an asset's shares: the module's 18-digit quotient vs/S keeps fewer
	// than 9 significant digits, so its token value (the divisor of the reward index) is off by more than 10^-9 relative
	for _, v := range post.ValOrder {
		for _, c := range post.ValInfos[v].ValidatorShares {
			if a, ok := post.Assets[c.Denom]; ok && a.TotalValidatorShares.IsPositive() && c.Amount.IsPositive() {
				if rquo(ratDec(c.Amount), ratDec(a.TotalValidatorShares)).Cmp(big.NewRat(1, 1_000_000_000)) < 0 {
					if !m.precisionLoss {
						r.Probe("c12_validator_fraction_below_1e-9")
					}
					m.precisionLoss = true
				}
			}
		}
	}
	sumT := new(big.Rat)
	for _, a := range post.Assets {
		sumT = radd(sumT, ratInt(a.TotalTokens))
	}
	if m.maxTokens == nil || sumT.Cmp(m.maxTokens) > 0 {
		m.maxTokens = sumT
	}
	// index rounding: each settlement rounds the per-token index at 10^-18, i.e. up to one ulp per staked token
	perSettlement := radd(rmul(m.maxTokens, big.NewRat(1, 1_000_000_000_000_000_000)), big.NewRat(1, 1))
	nSettle := int64(len(post.DelOrder) + len(post.StValOrder) + 1)
	roundTol := rmul(perSettlement, big.NewRat(nSettle, 1))

	pool, ent, failed := measureAccrued(r, post)
	if os.Getenv("VERIF_C12_DEBUG") != "" {
		fmt.Fprintf(os.Stderr, "C12DEBUG %s pool=%s\n", st.Name, pool)
		for _, pk := range post.DelOrder {
			fmt.Fprintf(os.Stderr, "   %s@%s/%s value=%s shares=%s ent=%s\n", short(pk.Del), short(pk.Val), pk.Denom, rstr(post.PosValue(pk)), post.Dels[pk].Shares, ent[pk])
		}
	}
	if failed > 0 {
		r.Probe("c12_entitlement_not_measurable")
	}
	if len(post.DelOrder) == 0 {
		m.ent = ent
		m.deficit = map[string]*big.Rat{}
		return
	}
	r.Nontrivial()
	// E(d) and the token-rounding bound
	E := map[string]*big.Rat{}
	rounder := map[string]*big.Rat{}
	fracBound := map[string]*big.Rat{}
	for _, pk := range post.DelOrder {
		v := post.PosValue(pk)
		// relative error of the module's 18-digit quotient validatorShares/totalShares for this position's validator
		relErr := new(big.Rat)
		if a, ok := post.Assets[pk.Denom]; ok && a.TotalValidatorShares.IsPositive() {
			if vs := ratDec(decCoinsAmount(post.ValInfos[pk.Val].ValidatorShares, pk.Denom)); vs.Sign() > 0 {
				relErr = rmul(rquo(ratDec(a.TotalValidatorShares), vs), big.NewRat(4, 1_000_000_000_000_000_000))
			}
		}
		// ... and of delegationShares/validator's delegator shares
		if sh := ratDec(post.Dels[pk].Shares); sh.Sign() > 0 {
			D := ratDec(decCoinsAmount(post.ValInfos[pk.Val].TotalDelegatorShares, pk.Denom))
			relErr = radd(relErr, rmul(rquo(D, sh), big.NewRat(4, 1_000_000_000_000_000_000)))
		}
		// the floor(value + 0.01) effect cuts both ways (a position worth 3.9 is paid for 3 tokens): when the share
		// of a reward that goes through such a position shrinks in a step, the aggregate entitlement grows by up
		// to one token's worth of what the position could claim before the step
		if v.Sign() > 0 {
			for _, c := range m.ent[pk] {
				rounder[c.Denom] = radd(getR(rounder, c.Denom), radd(rquo(ratInt(c.Amount), v), big.NewRat(1, 1)))
			}
		}
		for _, c := range ent[pk] {
			fracBound[c.Denom] = radd(getR(fracBound, c.Denom), rmul(ratInt(c.Amount), relErr))
			E[c.Denom] = radd(getR(E, c.Denom), ratInt(c.Amount))
			if v.Sign() > 0 {
				// payouts use floor(value + 0.01) tokens: up to one token's worth of entitlement beyond the exact share
				rounder[c.Denom] = radd(getR(rounder, c.Denom), radd(rquo(ratInt(c.Amount), v), big.NewRat(1, 1)))
			}
		}
	}
	if len(st.Slashes) > 0 {
		for _, e := range m.ent {
			if !e.IsZero() {
				r.Probe("c12_slash_with_accrued_unclaimed_rewards")
				break
			}
		}
	}
	if st.Kind == "end" {
		for d, a := range st.Pre.Assets {
			if pa, ok := post.Assets[d]; ok && pa.TotalTokens.LT(a.TotalTokens) && len(m.ent) > 0 {
				r.Probe("c12_take_rate_between_accrual_and_claim")
			}
		}
	}
	for _, f := range flowsOf(st.Events) {
		if f.Kind == "transfer" && f.To == r.W.RewardsAddr.String() && !f.Coins.IsZero() {
			r.Probe("c12_settlement")
		}
	}
	// (c)/(b) the deficit per denom and its growth in this step
	denoms := map[string]bool{}
	for d := range E {
		denoms[d] = true
	}
	for d := range m.deficit {
		denoms[d] = true
	}
	newDef := map[string]*big.Rat{}
	for _, d := range sortedKeys(denoms) {
		def := rsub(getR(E, d), ratInt(pool.AmountOf(d)))
		newDef[d] = def
		r.Eval("C12.c")
		prev := getR(m.deficit, d)
		// only positive territory matters: a surplus shrinking is not an inflation
		grow := rsub(maxRat(def, new(big.Rat)), maxRat(prev, new(big.Rat)))
		if grow.Cmp(roundTol) <= 0 {
			if grow.Sign() > 0 {
				r.Probe("c12_deficit_grew_within_index_rounding")
			}
			continue
		}
		cls := "entitlement-inflated:" + st.Kind + ":" + stepOpKind(st)
		switch {
		case len(st.Slashes) > 0:
			cls = "entitlement-inflated-by-slash"
		case fullySlashedAsset(st.Pre) || fullySlashedAsset(post):
			// precondition of the open finding: an asset with a staked total but no validator shares at all
			cls = "entitlement-inflated:fully-slashed-asset"
		case grow.Cmp(radd(getR(rounder, d), roundTol)) <= 0:
			cls = "entitlement-inflated:token-rounding"
		case grow.Cmp(radd(radd(getR(rounder, d), roundTol), getR(fracBound, d))) <= 0 || m.precisionLoss:
			cls = "entitlement-inflated:validator-fraction-precision-loss"
		case m.inflatedBySlash && prev.Sign() > 0 && grow.Cmp(rmul(prev, big.NewRat(1, 10000))) <= 0:
			// the run already carries a deficit from an inflation by slash (open finding): positions are then valued
			// inconsistently with the indexes, and re-splitting pending rewards moves the aggregate by a small fraction of it
			cls = "entitlement-inflated:drift-on-existing-deficit"
		}
		if len(st.Slashes) > 0 {
			m.inflatedBySlash = true
		}
		r.Violate("C12.c", cls, fmt.Sprintf("%s: accrued entitlements in %s exceed what the pool holds by %s (before this step: %s); nothing was received for the difference", st.Name, d, rstr(def), rstr(prev)))
		if r.failed() {
			return
		}
	}
	m.deficit = newDef
	m.ent = ent
	// (a) claiming for every delegation, in a rotating order, on one discarded branch of the real state
	r.Eval("C12.a")
	order := append([]PosKey{}, post.DelOrder...)
	n := len(order)
	rot := m.step % n
	order = append(order[rot:], order[:rot]...)
	if (m.step/n)%2 == 1 {
		rev := make([]PosKey, n)
		for i := range order {
			rev[n-1-i] = order[i]
		}
		order = rev
	}
	ctx := r.Branch()
	settleAll(r, ctx, post) // everything the pool is going to receive for the rewards accrued so far
	// what each position can claim once everything is settled, and the rounding bounds that go with it: the
	// settlement of the pending rewards assigns them through floor(value + 0.01) tokens and 18-digit quotients too
	_, claimable, _ := measureAccruedAt(r, ctx, post)
	tokenBoundA := map[string]*big.Rat{}
	fracBoundA := map[string]*big.Rat{}
	for _, pk := range post.DelOrder {
		v := post.PosValue(pk)
		relErr := new(big.Rat)
		if a, ok := post.Assets[pk.Denom]; ok && a.TotalValidatorShares.IsPositive() {
			if vs := ratDec(decCoinsAmount(post.ValInfos[pk.Val].ValidatorShares, pk.Denom)); vs.Sign() > 0 {
				relErr = rmul(rquo(ratDec(a.TotalValidatorShares), vs), big.NewRat(4, 1_000_000_000_000_000_000))
			}
		}
		if sh := ratDec(post.Dels[pk].Shares); sh.Sign() > 0 {
			D := ratDec(decCoinsAmount(post.ValInfos[pk.Val].TotalDelegatorShares, pk.Denom))
			relErr = radd(relErr, rmul(rquo(D, sh), big.NewRat(4, 1_000_000_000_000_000_000)))
		}
		for _, c := range claimable[pk] {
			if v.Sign() > 0 {
				tokenBoundA[c.Denom] = radd(getR(tokenBoundA, c.Denom), radd(rquo(ratInt(c.Amount), v), big.NewRat(1, 1)))
			}
			fracBoundA[c.Denom] = radd(getR(fracBoundA, c.Denom), rmul(ratInt(c.Amount), relErr))
		}
	}
	for _, pk := range order {
		ok, e := func() (ok bool, e string) {
			defer func() {
				if rec := recover(); rec != nil {
					ok, e = false, fmt.Sprintf("panic: %v", rec)
				}
			}()
			_, err := r.MS.ClaimDelegationRewards(ctx, alliancetypes.NewMsgClaimDelegationRewards(pk.Del, pk.Val, pk.Denom))
			if err != nil {
				return false, err.Error()
			}
			return true, ""
		}()
		if ok {
			continue
		}
		if !(strings.Contains(e, "insufficient funds") && strings.Contains(e, "spendable balance")) {
			r.Probe("c12_claim_failed_for_other_reason") // C05's territory
			continue
		}
		need, have, denom := parseShortfall(e)
		short := rsub(need, have)
		cls := "pool-shortfall"
		def := maxRat(getR(newDef, denom), new(big.Rat))
		switch {
		case short.Cmp(roundTol) <= 0:
			cls = "pool-shortfall:index-rounding"
		case short.Cmp(radd(def, roundTol)) <= 0:
			// consequence of the deficit that clause c already attributed (to an open finding, or reported)
			cls = "pool-shortfall:accrued-deficit"
		case short.Cmp(radd(radd(def, roundTol), getR(tokenBoundA, denom))) <= 0:
			// the pending rewards settled above are assigned through floor(value + 0.01) tokens: a position worth
			// 68.997 is paid as 69 tokens of an index that was divided by 68.997
			cls = "pool-shortfall:token-rounding"
		case short.Cmp(radd(radd(radd(def, roundTol), getR(tokenBoundA, denom)), getR(fracBoundA, denom))) <= 0 || m.precisionLoss:
			cls = "pool-shortfall:validator-fraction-precision-loss"
		}
		r.Violate("C12.a", cls, fmt.Sprintf("claiming for all %d positions: %s fails: pool holds %s %s, claim needs %s (measured deficit %s, index-rounding tolerance %s)", n, pk, rstr(have), denom, rstr(need), rstr(def), rstr(roundTol)))
		return
	}
}

func getR(m map[string]*big.Rat, k string) *big.Rat {
	if v, ok := m[k]; ok {
		return v
	}
	return new(big.Rat)
}

// parseShortfall extracts "spendable balance X<denom> is smaller than Y<denom>".
func parseShortfall(e string) (need, have *big.Rat, denom string) {
	need, have = new(big.Rat), new(big.Rat)
	i := strings.Index(e, "spendable balance ")
	j := strings.Index(e, " is smaller than ")
	if i < 0 || j < 0 {
		return
	}
	a := e[i+len("spendable balance ") : j]
	rest := e[j+len(" is smaller than "):]
	k := strings.IndexAny(rest, ": ")
	if k > 0 {
		rest = rest[:k]
	}
	ca, err1 := sdk.ParseCoinNormalized(a)
	cb, err2 := sdk.ParseCoinNormalized(rest)
	if err1 == nil {
		have = ratInt(ca.Amount)
		denom = ca.Denom
	}
	if err2 == nil {
		need = ratInt(cb.Amount)
		denom = cb.Denom
	}
	return
}

var _ = sort.Strings

// fullySlashedAsset: some asset keeps a positive staked total while no validator holds shares of it
// (every validator that held it was slashed by 100 %). The module then values every validator as
// holding the asset's whole total (ConvertNewShareToDecToken returns totalTokens when totalShares is zero).
func fullySlashedAsset(s *Snap) bool {
	if s == nil {
		return false
	}
	for _, a := range s.Assets {
		if a.TotalTokens.IsPositive() && a.TotalValidatorShares.IsZero() {
			return true
		}
	}
	return false
}
