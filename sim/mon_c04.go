package main

import (
	"fmt"
	"math/big"
	"strings"

	sdkmath "cosmossdk.io/math"
	sdk "github.com/cosmos/cosmos-sdk/types"

	alliancetypes "github.com/terra-money/alliance/x/alliance/types"
)

// C04 position isolation: an operation moves its amount and nobody else's value.
type monC04 struct{}

func newMonC04() *monC04           { return &monC04{} }
func (m *monC04) Name() string     { return "C04" }
func (m *monC04) Finish(r *Runner) {}

// degenerate: a staked total without any validator shares (the only validator holding the asset was
// slashed by 100%): nobody owns the tokens until the next delegation re-creates shares.
func degenerate(s *Snap, denom string) bool {
	a, ok := s.Assets[denom]
	return !ok || (a.TotalTokens.IsPositive() && a.TotalValidatorShares.IsZero())
}

func (m *monC04) OnStep(r *Runner, st *Step) {
	if st.Kind != "op" || !st.Res.OK {
		return
	}
	k := st.ROp.Op.K
	if k != "delegate" && k != "undelegate" && k != "redelegate" && k != "claim" {
		return
	}
	pre, post := st.Pre, st.Post
	ro := st.ROp
	denom := ro.Denom
	if degenerate(pre, denom) || degenerate(post, denom) {
		r.Probe("c04_degenerate_asset_skipped")
		return
	}
	amt := new(big.Rat)
	if k != "claim" {
		amt = ratInt(ro.Amount)
	}
	del := ro.Del.String()
	actor := map[PosKey]*big.Rat{} // expected signed change of the actor's positions
	switch k {
	case "delegate":
		actor[PosKey{del, ro.Val.String(), denom}] = amt
	case "undelegate":
		actor[PosKey{del, ro.Val.String(), denom}] = new(big.Rat).Neg(amt)
	case "redelegate":
		actor[PosKey{del, ro.Val.String(), denom}] = new(big.Rat).Neg(amt)
		actor[PosKey{del, ro.Dst.String(), denom}] = amt
	case "claim":
		actor[PosKey{del, ro.Val.String(), denom}] = new(big.Rat)
	}
	r.Nontrivial()
	ratio := pre.Assets[denom]
	if !ratio.TotalTokens.IsZero() {
		q := rquo(ratDec(ratio.TotalValidatorShares), ratInt(ratio.TotalTokens))
		if q.Cmp(big.NewRat(1000, 1)) > 0 || q.Cmp(big.NewRat(1, 1000)) < 0 {
			r.Probe("c04_extreme_share_token_ratio")
		}
	}
	if !ro.Amount.IsNil() && ro.Amount.IsPositive() && ro.Amount.LT(sdkmath.NewInt(10)) && pre.Assets[denom].TotalTokens.GT(sdkmath.NewInt(1_000_000_000_000)) {
		r.Probe("c04_dust_against_huge_total")
	}
	// (a)(b) every position of the asset
	for _, p := range allPositions(pre, post) {
		if p.Denom != denom {
			// other assets are not touched at all
			if pre.PosValue(p).Cmp(post.PosValue(p)) != 0 {
				r.Eval("C04.b")
				r.Violate("C04.b", "other-asset-position-changed", fmt.Sprintf("%s on %s changed a position of another asset: %s %s -> %s", k, denom, p, rstr(pre.PosValue(p)), rstr(post.PosValue(p))))
				return
			}
			continue
		}
		before, after := pre.PosValue(p), post.PosValue(p)
		change := rsub(after, before)
		tol := tolMax(pre, post, p.Val, denom, maxRat(amt, before))
		if want, isActor := actor[p]; isActor {
			r.Eval("C04.a")
			if !within(change, want, tol) {
				cls := "actor-delta:" + k
				if want.Sign() > 0 {
					if orphan := orphanedValue(pre, p.Val, denom); orphan.Sign() > 0 && change.Cmp(want) > 0 && rsub(change, want).Cmp(radd(orphan, tol)) <= 0 {
						cls = "actor-captures-orphaned-value"
					}
				}
				r.Violate("C04.a", cls, fmt.Sprintf("%s %s: actor position %s changed by %s, requested %s (tol %s)", k, ro.Amount, p, rstr(change), rstr(want), rstr(tol)))
				if r.failed() {
					return
				}
			}
			continue
		}
		r.Eval("C04.b")
		if !within(change, new(big.Rat), tol) {
			r.Violate("C04.b", "bystander-changed:"+k, fmt.Sprintf("%s %s by %s: position %s of another delegator/validator changed by %s (tol %s)", k, ro.Amount, short(del), p, rstr(change), rstr(tol)))
			return
		}
	}
	// (c) reported balances of the asset sum to at most staked total + one unit per position (+ fixed-point error)
	r.Eval("C04.c")
	sum := new(big.Rat)
	n := 0
	tolSum := new(big.Rat)
	for _, p := range post.DelOrder {
		if p.Denom != denom {
			continue
		}
		d, _ := sdk.AccAddressFromBech32(p.Del)
		v, _ := sdk.ValAddressFromBech32(p.Val)
		b, err := r.ReportedBalance(r.Branch(), d, v, denom)
		if err != nil {
			continue
		}
		sum = radd(sum, ratInt(b))
		n++
		tolSum = radd(tolSum, rsub(post.tolFor(p.Val, denom, ratInt(b)), big.NewRat(1, 1)))
	}
	limit := radd(radd(ratInt(post.Assets[denom].TotalTokens), tolSum), big.NewRat(0, 1))
	if sum.Cmp(limit) > 0 {
		r.Violate("C04.c", "reported-sum-exceeds-total", fmt.Sprintf("asset %s: %d reported balances sum to %s, staked total %s (allowed %s)", denom, n, rstr(sum), post.Assets[denom].TotalTokens, rstr(limit)))
		return
	}
	// (d) round trip: a fresh position can never be withdrawn for more than was put in
	if k == "delegate" {
		p := PosKey{del, ro.Val.String(), denom}
		if _, existed := pre.Dels[p]; !existed {
			r.Eval("C04.d")
			b, err := r.ReportedBalance(r.Branch(), ro.Del, ro.Val, denom)
			if err == nil {
				fp := rsub(post.tolFor(p.Val, denom, amt), big.NewRat(2, 1)) // pure fixed-point part of the tolerance
				if ratInt(b).Cmp(radd(amt, fp)) > 0 {
					ok, _ := tryMsg(r, func(ctx sdk.Context) error {
						_, e := r.MS.Undelegate(ctx, &alliancetypes.MsgUndelegate{DelegatorAddress: del, ValidatorAddress: p.Val, Amount: sdk.Coin{Denom: denom, Amount: b}})
						return e
					})
					if ok {
						cls := "round-trip-profit"
						if orphanedValue(pre, p.Val, denom).Sign() > 0 {
							cls = "round-trip-profit:orphaned-value"
						}
						r.Violate("C04.d", cls, fmt.Sprintf("delegated %s into a fresh position on %s and can immediately undelegate %s", ro.Amount, short(p.Val), b))
					}
				}
			}
		}
	}
}

// tryMsg runs f on a discarded branch, recovering panics.
func tryMsg(r *Runner, f func(ctx sdk.Context) error) (ok bool, errs string) {
	ctx := r.Branch()
	defer func() {
		if rec := recover(); rec != nil {
			ok, errs = false, fmt.Sprintf("panic: %v", rec)
		}
	}()
	if err := f(ctx); err != nil {
		return false, err.Error()
	}
	return true, ""
}

var _ = strings.Contains
