package main

import (
	sdkmath "cosmossdk.io/math"
	abci "github.com/cometbft/cometbft/abci/types"
	sdk "github.com/cosmos/cosmos-sdk/types"
)

// Flow is one bank movement reconstructed from the SDK bank module's events of a step.
// Kind: transfer (From->To), mint (To), burn (From).
type Flow struct {
	Kind  string
	From  string
	To    string
	Coins sdk.Coins
}

func attr(e abci.Event, k string) string {
	for _, a := range e.Attributes {
		if a.Key == k {
			return a.Value
		}
	}
	return ""
}

func flowsOf(events []abci.Event) []Flow {
	var out []Flow
	for _, e := range events {
		switch e.Type {
		case "transfer":
			c, err := sdk.ParseCoinsNormalized(attr(e, "amount"))
			if err != nil {
				continue
			}
			out = append(out, Flow{Kind: "transfer", From: attr(e, "sender"), To: attr(e, "recipient"), Coins: c})
		case "coinbase":
			c, err := sdk.ParseCoinsNormalized(attr(e, "amount"))
			if err != nil {
				continue
			}
			out = append(out, Flow{Kind: "mint", To: attr(e, "minter"), Coins: c})
		case "burn":
			c, err := sdk.ParseCoinsNormalized(attr(e, "amount"))
			if err != nil {
				continue
			}
			out = append(out, Flow{Kind: "burn", From: attr(e, "burner"), Coins: c})
		}
	}
	return out
}

// netFlow sums transfers from `from` to `to` in denom.
func netTransfer(fl []Flow, from, to, denom string) (s sdkInt) {
	s = zeroInt()
	for _, f := range fl {
		if f.Kind == "transfer" && f.From == from && f.To == to {
			s = s.Add(f.Coins.AmountOf(denom))
		}
	}
	return s
}

type sdkInt = sdkmath.Int

func zeroInt() sdkInt { return sdkmath.ZeroInt() }
