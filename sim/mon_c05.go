package main

import (
	"fmt"
	"math/big"
	"strings"

	sdkmath "cosmossdk.io/math"
	sdk "github.com/cosmos/cosmos-sdk/types"

	alliancetypes "github.com/terra-money/alliance/x/alliance/types"
)

// C05 user-operation liveness: users can always enter, claim and fully exit.
// Probed non-destructively on discarded branches after every step.
type monC05 struct{}

func newMonC05() *monC05           { return &monC05{} }
func (m *monC05) Name() string     { return "C05" }
func (m *monC05) Finish(r *Runner) {}

func (m *monC05) classify(r *Runner, s *Snap, pk PosKey, op, errs string) string {
	// x/staking removed the validator (unbonded, nobody holds staking shares of it) while alliance delegations
	// pointed at it: every message and query of those positions needs the validator record (open finding)
	if _, ok := s.StVals[pk.Val]; !ok && op != "delegate" && (strings.Contains(errs, "does not exist") || strings.Contains(errs, "not found")) {
		return op + ":validator-removed-by-staking"
	}
	// ... and the same operator created the validator again: the new record starts without shares, the old
	// delegations are still there and cannot be taken out of it
	if op != "delegate" && r.strandedPos(s, pk.Val, pk.Denom) {
		return op + ":validator-removed-by-staking-and-created-again"
	}
	switch {
	case strings.Contains(errs, "insufficient funds") && strings.Contains(errs, "spendable balance") && (op == "claim" || s.BalOf(r.W.ModuleAddr, pk.Denom).IsPositive()):
		// the implicit or explicit reward claim cannot be paid by the rewards pool (open finding C12)
		return op + ":reward-pool-shortfall"
	case strings.Contains(errs, "division by zero") || strings.Contains(errs, "divide by zero"):
		// a validator whose alliance token value is zero while shares remain (after a 100% slash)
		// (precondition of the open finding: delegator shares exist on the validator but are worth nothing; a drained
		// asset or a validator nobody delegates to is a different state)
		if vi, ok := s.ValInfos[pk.Val]; ok && s.ValTokens(pk.Val, pk.Denom).Sign() == 0 && decCoinsAmount(vi.TotalDelegatorShares, pk.Denom).IsPositive() {
			return op + ":zero-value-validator"
		}
		// the validator's fraction of the asset's shares is below 18-digit resolution, so the module
		// computes its token value as zero although it holds stake
		if a, ok := s.Assets[pk.Denom]; ok && !a.TotalValidatorShares.IsZero() {
			if vi, ok := s.ValInfos[pk.Val]; ok {
				frac := rquo(ratDec(decCoinsAmount(vi.ValidatorShares, pk.Denom)), ratDec(a.TotalValidatorShares))
				if frac.Cmp(big.NewRat(1, 1_000_000_000_000_000_000)) < 0 {
					return op + ":validator-share-underflow"
				}
			}
		}
		return op + ":division-by-zero"
	case strings.Contains(errs, "too small to be represented in shares"):
		return op + ":deposit-below-share-resolution"
	case strings.Contains(errs, "overflow"):
		// shares per token inflated by repeated take-rate deductions (the share total never shrinks): the
		// shares for a large deposit no longer fit an 18-digit decimal
		if a, ok := s.Assets[pk.Denom]; ok && a.TotalTokens.IsPositive() {
			q := rquo(ratDec(a.TotalValidatorShares), ratInt(a.TotalTokens))
			if q.Cmp(new(big.Rat).SetInt(new(big.Int).Exp(big.NewInt(10), big.NewInt(25), nil))) > 0 {
				return op + ":share-inflation-overflow"
			}
		}
	case strings.Contains(errs, "not whitelisted") || strings.Contains(errs, "does not exist in alliance whitelist") || strings.Contains(errs, "AllianceAsset not found"):
		if _, ok := s.Assets[pk.Denom]; !ok {
			return op + ":asset-deleted"
		}
	}
	return op + ":" + classifyErr(errs)
}

func (m *monC05) OnStep(r *Runner, st *Step) {
	s := st.Post
	w := r.W
	special := false
	if len(st.Slashes) > 0 {
		r.Probe("c05_after_slash")
		special = true
	}
	for _, v := range s.StVals {
		if v.Jailed {
			r.Probe("c05_with_jailed_validator")
			special = true
			break
		}
	}
	if special || len(s.Dels) > 0 {
		r.Nontrivial()
	}
	// ---- enter: delegate 1 unit and a large amount to every validator staking knows, every whitelisted asset
	for _, v := range s.StValOrder {
		for i := range w.Cfg.Assets {
			denom := AllianceDenoms[i]
			if _, ok := s.Assets[denom]; !ok {
				continue
			}
			large := userFunds(w.Cfg.Assets[i]).QuoRaw(3)
			for _, amt := range []sdkmath.Int{sdkmath.OneInt(), large} {
				r.Eval("C05.enter")
				ok, errs := tryMsg(r, func(ctx sdk.Context) error {
					_, e := r.MS.Delegate(ctx, alliancetypes.NewMsgDelegate(w.Prober.Addr.String(), v, sdk.NewCoin(denom, amt)))
					return e
				})
				if !ok {
					pk := PosKey{w.Prober.Addr.String(), v, denom}
					r.Violate("C05.a", m.classify(r, s, pk, "delegate", errs), fmt.Sprintf("a funded user cannot delegate %s %s to %s: %s", amt, denom, short(v), errs))
					if r.failed() {
						return
					}
					break
				}
			}
		}
	}
	// ---- claim and fully exit every existing position with a positive reported balance
	for _, pk := range s.DelOrder {
		del, _ := sdk.AccAddressFromBech32(pk.Del)
		val, _ := sdk.ValAddressFromBech32(pk.Val)
		bal, err := r.ReportedBalance(r.Branch(), del, val, pk.Denom)
		if err != nil {
			// the position cannot even be priced
			r.Eval("C05.b")
			r.Violate("C05.b", m.classify(r, s, pk, "query", err.Error()), fmt.Sprintf("position %s cannot be queried: %v", pk, err))
			if r.failed() {
				return
			}
			continue
		}
		if !bal.IsPositive() {
			r.Probe("c05_zero_balance_position")
			continue
		}
		r.Eval("C05.b")
		ok, errs := tryMsg(r, func(ctx sdk.Context) error {
			_, e := r.MS.ClaimDelegationRewards(ctx, alliancetypes.NewMsgClaimDelegationRewards(pk.Del, pk.Val, pk.Denom))
			return e
		})
		if !ok {
			r.Violate("C05.b", m.classify(r, s, pk, "claim", errs), fmt.Sprintf("%s cannot claim: %s", pk, errs))
			if r.failed() {
				return
			}
		}
		r.Eval("C05.c")
		ok, errs = tryMsg(r, func(ctx sdk.Context) error {
			_, e := r.MS.Undelegate(ctx, &alliancetypes.MsgUndelegate{DelegatorAddress: pk.Del, ValidatorAddress: pk.Val, Amount: sdk.Coin{Denom: pk.Denom, Amount: bal}})
			return e
		})
		if !ok {
			r.Violate("C05.c", m.classify(r, s, pk, "undelegate", errs), fmt.Sprintf("%s cannot undelegate its reported balance %s: %s", pk, bal, errs))
			if r.failed() {
				return
			}
		}
	}
}
