package main

import (
	"fmt"
	"strings"

	sdkmath "cosmossdk.io/math"
)

// C16 governance gate and asset-parameter validity.
type monC16 struct{}

func newMonC16() *monC16           { return &monC16{} }
func (m *monC16) Name() string     { return "C16" }
func (m *monC16) Finish(r *Runner) {}

func (m *monC16) OnStep(r *Runner, st *Step) {
	pre, post := st.Pre, st.Post
	// (c) every stored asset satisfies the predicate, after every step (inductive under decay and user traffic)
	for _, d := range post.AssetOrder {
		a := post.Assets[d]
		r.Eval("C16.c")
		bad := ""
		switch {
		case a.TakeRate.IsNil() || a.TakeRate.IsNegative() || a.TakeRate.GTE(sdkmath.LegacyOneDec()):
			bad = fmt.Sprintf("takeRate %v not in [0,1)", a.TakeRate)
		case a.RewardWeight.IsNil() || a.RewardWeightRange.Min.IsNil() || a.RewardWeightRange.Max.IsNil():
			bad = "nil reward weight or range"
		case a.RewardWeight.LT(a.RewardWeightRange.Min) || a.RewardWeight.GT(a.RewardWeightRange.Max):
			bad = fmt.Sprintf("rewardWeight %s outside [%s, %s]", a.RewardWeight, a.RewardWeightRange.Min, a.RewardWeightRange.Max)
		case a.RewardChangeRate.IsNil() || !a.RewardChangeRate.IsPositive():
			bad = fmt.Sprintf("rewardChangeRate %v not positive", a.RewardChangeRate)
		case a.RewardChangeInterval < 0:
			bad = fmt.Sprintf("rewardChangeInterval %s negative", a.RewardChangeInterval)
		}
		if bad != "" {
			r.Violate("C16.c", "asset-predicate:"+st.Kind+":"+stepOpKind(st), fmt.Sprintf("asset %s after %s: %s", d, st.Name, bad))
			return
		}
	}
	if st.Kind != "op" {
		return
	}
	op := st.ROp.Op
	if !strings.HasPrefix(op.K, "gov_") {
		// nobody but governance may create, delete or re-parameterise an asset, or change the params
		r.Eval("C16.g")
		if len(pre.Assets) != len(post.Assets) {
			r.Violate("C16.g", "asset-set-changed-by-user-op", fmt.Sprintf("%s changed the set of whitelisted assets", st.Name))
			return
		}
		if pre.HasParams && post.HasParams && (pre.Params.RewardDelayTime != post.Params.RewardDelayTime || pre.Params.TakeRateClaimInterval != post.Params.TakeRateClaimInterval) {
			r.Violate("C16.g", "params-changed-by-user-op", fmt.Sprintf("%s changed the module parameters", st.Name))
		}
		return
	}
	if op.K == "gov_staking_params" || op.K == "gov_slashing_params" {
		return
	}
	r.Nontrivial()
	authorized := op.Legacy && op.K != "gov_params" || op.Authority == "" || op.Authority == "gov"
	if st.Res.Panic && !st.Res.OutOfGas {
		r.Probe("c16_handler_panicked_on_input")
	}
	if st.Res.OutOfGas {
		r.Probe("c16_aborted_by_gas")
	}
	// (a) only the configured authority
	r.Eval("C16.a")
	if !authorized {
		r.Probe("c16_wrong_authority_" + op.Authority)
		if st.Res.OK {
			r.Violate("C16.a", "wrong-authority-accepted:"+op.K, fmt.Sprintf("%s with authority %q (%s) was accepted", op.K, op.Authority, r.authority(op)))
			return
		}
	}
	// (b) a rejected request changes no state
	if !st.Res.OK {
		r.Eval("C16.b")
		if pre.Digest() != post.Digest() {
			r.Violate("C16.b", "rejected-request-changed-state", fmt.Sprintf("%s was rejected (%s) but the module store changed", st.Name, st.Res.Err))
		}
		return
	}
	denom := st.ROp.Denom
	switch op.K {
	case "gov_create":
		r.Eval("C16.f")
		if _, existed := pre.Assets[denom]; existed {
			r.Violate("C16.f", "duplicate-create-accepted", fmt.Sprintf("denom %s was whitelisted a second time", denom))
			return
		}
		a, ok := post.Assets[denom]
		if !ok {
			r.Violate("C16.f", "create-without-asset", fmt.Sprintf("create of %s accepted but no asset stored", denom))
			return
		}
		if !a.TotalTokens.IsZero() || !a.TotalValidatorShares.IsZero() {
			r.Violate("C16.f", "created-with-stake", fmt.Sprintf("new asset %s starts with tokens %s shares %s", denom, a.TotalTokens, a.TotalValidatorShares))
			return
		}
		r.Probe("c16_create_accepted")
	case "gov_update":
		r.Eval("C16.d")
		a, ok1 := pre.Assets[denom]
		b, ok2 := post.Assets[denom]
		if !ok1 || !ok2 {
			r.Violate("C16.d", "update-of-unknown-asset-accepted", fmt.Sprintf("update of %s accepted, existed before=%v after=%v", denom, ok1, ok2))
			return
		}
		if !a.TotalTokens.Equal(b.TotalTokens) || !a.TotalValidatorShares.Equal(b.TotalValidatorShares) || a.Denom != b.Denom ||
			!a.RewardStartTime.Equal(b.RewardStartTime) || a.IsInitialized != b.IsInitialized {
			r.Violate("C16.d", "update-altered-protected-field", fmt.Sprintf("update of %s changed tokens %s->%s shares %s->%s start %s->%s init %v->%v", denom, a.TotalTokens, b.TotalTokens, a.TotalValidatorShares, b.TotalValidatorShares, a.RewardStartTime, b.RewardStartTime, a.IsInitialized, b.IsInitialized))
			return
		}
		if a.TotalTokens.IsPositive() {
			r.Probe("c16_update_of_staked_asset")
		}
		if !pre.Time.Before(a.RewardStartTime) == false {
			r.Probe("c16_update_mid_warm_up")
		}
	case "gov_delete":
		r.Eval("C16.e")
		a, ok := pre.Assets[denom]
		if !ok {
			r.Violate("C16.e", "delete-of-unknown-asset-accepted", denom)
			return
		}
		if a.TotalTokens.IsPositive() {
			r.Violate("C16.e", "delete-with-stake", fmt.Sprintf("asset %s deleted while %s is staked", denom, a.TotalTokens))
			return
		}
		if _, still := post.Assets[denom]; still {
			r.Violate("C16.e", "delete-left-asset", denom)
			return
		}
		r.Probe("c16_delete_accepted")
	case "gov_params":
		r.Probe("c16_params_accepted")
	}
}
