package main

// Self-contained PRNG (splitmix64 seeding xoshiro256**), so that a seed means the same
// schedule regardless of the Go release's math/rand stream.

type RNG struct{ s [4]uint64 }

func splitmix64(x *uint64) uint64 {
	*x += 0x9e3779b97f4a7c15
	z := *x
	z = (z ^ (z >> 30)) * 0xbf58476d1ce4e5b9
	z = (z ^ (z >> 27)) * 0x94d049bb133111eb
	return z ^ (z >> 31)
}

// mix derives a run seed from (VERIF_SEED, property ordinal, run index).
func mixSeed(parts ...uint64) uint64 {
	x := uint64(0x243f6a8885a308d3)
	for _, p := range parts {
		x ^= p
		_ = splitmix64(&x)
		x = splitmix64(&x)
	}
	return x
}

func NewRNG(seed uint64) *RNG {
	r := &RNG{}
	x := seed
	for i := range r.s {
		r.s[i] = splitmix64(&x)
	}
	return r
}

func rotl(x uint64, k uint) uint64 { return (x << k) | (x >> (64 - k)) }

func (r *RNG) U64() uint64 {
	s := &r.s
	res := rotl(s[1]*5, 7) * 9
	t := s[1] << 17
	s[2] ^= s[0]
	s[3] ^= s[1]
	s[1] ^= s[2]
	s[0] ^= s[3]
	s[2] ^= t
	s[3] = rotl(s[3], 45)
	return res
}

// Intn returns a value in [0,n). n must be > 0.
func (r *RNG) Intn(n int) int {
	if n <= 0 {
		return 0
	}
	return int(r.U64() % uint64(n))
}

func (r *RNG) I64n(n int64) int64 {
	if n <= 0 {
		return 0
	}
	return int64(r.U64() % uint64(n))
}

// Range returns a value in [lo,hi].
func (r *RNG) Range(lo, hi int) int {
	if hi <= lo {
		return lo
	}
	return lo + r.Intn(hi-lo+1)
}

func (r *RNG) Float() float64 { return float64(r.U64()>>11) / float64(uint64(1)<<53) }

func (r *RNG) Chance(p float64) bool { return r.Float() < p }

// Pick chooses an index according to integer weights.
func (r *RNG) Pick(weights []int) int {
	tot := 0
	for _, w := range weights {
		if w > 0 {
			tot += w
		}
	}
	if tot == 0 {
		return 0
	}
	x := r.Intn(tot)
	for i, w := range weights {
		if w <= 0 {
			continue
		}
		if x < w {
			return i
		}
		x -= w
	}
	return len(weights) - 1
}

func (r *RNG) Perm(n int) []int {
	p := make([]int, n)
	for i := range p {
		p[i] = i
	}
	for i := n - 1; i > 0; i-- {
		j := r.Intn(i + 1)
		p[i], p[j] = p[j], p[i]
	}
	return p
}
