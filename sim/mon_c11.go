package main

import (
	"fmt"
	"math/big"

	sdkmath "cosmossdk.io/math"
	"github.com/cosmos/cosmos-sdk/types/query"
	banktypes "github.com/cosmos/cosmos-sdk/x/bank/types"
)

// C11 virtual staking tokens never leak; native supply preserved and reported net.
type monC11 struct {
	donatedBond sdkmath.Int // bond-denom coins third parties sent to the custody account (burned by design)
	residueBond sdkmath.Int // bond-denom rewards left in custody (open finding C01-reward-residue), burned at end-of-block
}

func newMonC11() *monC11 {
	return &monC11{donatedBond: sdkmath.ZeroInt(), residueBond: sdkmath.ZeroInt()}
}
func (m *monC11) Name() string     { return "C11" }
func (m *monC11) Finish(r *Runner) {}

func moduleStakeAll(s *Snap) *big.Rat {
	t := new(big.Rat)
	for v := range s.ModDels {
		t = radd(t, s.ModuleStake(v))
	}
	return t
}

func netSupply(s *Snap) *big.Rat {
	return rsub(ratInt(s.Supply.AmountOf(BondDenom)), moduleStakeAll(s))
}

func (m *monC11) OnStep(r *Runner, st *Step) {
	pre, post := st.Pre, st.Post
	w := r.W
	mod := w.ModuleAddr.String()
	fl := flowsOf(st.Events)
	if st.Kind == "op" && st.Res.OK && st.ROp.Op.K == "donate" && (st.ROp.Op.To == "" || st.ROp.Op.To == "alliance") && st.ROp.Denom == BondDenom {
		m.donatedBond = m.donatedBond.Add(st.ROp.Amount)
		r.Probe("c11_bond_denom_donation")
	}
	// flows of the staking denom in this step
	minted, burned := map[string]sdkmath.Int{}, map[string]sdkmath.Int{}
	fromDistr, outOfModule := sdkmath.ZeroInt(), sdkmath.ZeroInt()
	// rewards that can be credited to nobody go straight back to the fee collector
	returnable := returnedRewards(r, st.Events).AmountOf(BondDenom)
	for _, f := range fl {
		a := f.Coins.AmountOf(BondDenom)
		if a.IsZero() {
			continue
		}
		switch f.Kind {
		case "mint":
			cur, ok := minted[f.To]
			if !ok {
				cur = sdkmath.ZeroInt()
			}
			minted[f.To] = cur.Add(a)
		case "burn":
			cur, ok := burned[f.From]
			if !ok {
				cur = sdkmath.ZeroInt()
			}
			burned[f.From] = cur.Add(a)
		case "transfer":
			if f.To == mod && f.From == w.DistrAddr.String() {
				fromDistr = fromDistr.Add(a)
			}
			if f.From == mod {
				outOfModule = outOfModule.Add(a)
				// (c) minted tokens may only leave custody as forwarded rewards
				if f.To == w.FeeCollector.String() && a.LTE(returnable) {
					returnable = returnable.Sub(a)
					r.Probe("c11_rewards_returned_to_fee_collector")
				} else if f.To != w.RewardsAddr.String() {
					r.Eval("C11.c")
					r.Violate("C11.c", "custody-pays-staking-denom", fmt.Sprintf("%s %s transferred from the custody account to %s", a, BondDenom, short(f.To)))
					return
				}
			}
		}
	}
	r.Eval("C11.c")
	if outOfModule.GT(fromDistr) {
		r.Violate("C11.c", "custody-forwards-more-than-rewards", fmt.Sprintf("custody account sent %s %s to the rewards pool but received only %s from x/distribution in this step", outOfModule, BondDenom, fromDistr))
		return
	}
	if fromDistr.GT(outOfModule) {
		_, residues := settlementsOf(r, st.Events)
		excused := true
		for _, rs := range residues {
			if !residuePrecondition(pre, rs.val) && !residuePrecondition(post, rs.val) {
				excused = false
			}
		}
		if !excused {
			r.Violate("C11.c", "rewards-not-forwarded", fmt.Sprintf("%s %s of rewards withdrawn for a validator with alliance delegators stayed in the custody account", fromDistr.Sub(outOfModule), BondDenom))
			return
		}
		m.residueBond = m.residueBond.Add(fromDistr.Sub(outOfModule))
		r.Probe("c11_reward_residue_in_custody")
	}
	for to, a := range minted {
		// with minting disabled in this configuration only the alliance module mints staking tokens
		if to != mod && w.Cfg.Inflation == "0" {
			r.Violate("C11.c", "mint-to-other-account", fmt.Sprintf("%s %s minted to %s", a, BondDenom, short(to)))
			return
		}
	}
	// (a) net supply
	r.Eval("C11.a")
	d := rsub(netSupply(post), netSupply(pre))
	events := int64(len(post.ModDels) + len(pre.ModDels) + 2)
	tol := big.NewRat(events, 1) // share <-> token truncation, one unit per module delegation touched
	switch st.Kind {
	case "op":
		if rabs(d).Cmp(tol) > 0 {
			r.Violate("C11.a", "net-supply-changed:"+stepOpKind(st), fmt.Sprintf("%s changed the staking-denom supply net of alliance stake by %s", st.Name, rstr(d)))
			return
		}
	case "end":
		r.Nontrivial()
		burnedMod, ok := burned[mod]
		if !ok {
			burnedMod = sdkmath.ZeroInt()
		}
		allowed := m.donatedBond.Add(m.residueBond)
		if burnedMod.GT(allowed) {
			r.Violate("C11.a", "custody-burned-more-than-unsolicited", fmt.Sprintf("end-of-block burned %s %s from the custody account; unsolicited transfers and stuck rewards account for %s", burnedMod, BondDenom, allowed))
			return
		}
		if burnedMod.IsPositive() && m.residueBond.IsPositive() {
			r.Violate("C11.a", "reward-residue-burned", fmt.Sprintf("end-of-block burned %s %s of x/distribution rewards that were left in the custody account", minInt(burnedMod, m.residueBond), BondDenom))
			if r.failed() {
				return
			}
		}
		// consume the allowance
		rest := burnedMod
		use := minInt(rest, m.residueBond)
		m.residueBond = m.residueBond.Sub(use)
		rest = rest.Sub(use)
		m.donatedBond = m.donatedBond.Sub(minInt(rest, m.donatedBond))
		want := new(big.Rat).Neg(ratInt(burnedMod))
		if !within(d, want, tol) {
			r.Violate("C11.a", "net-supply-changed:rebalance", fmt.Sprintf("end-of-block changed the staking-denom supply net of alliance stake by %s (custody burn accounts for %s); minted %v burned %v", rstr(d), rstr(want), minted, burned))
			return
		}
		var mintedMod sdkmath.Int = sdkmath.ZeroInt()
		if x, ok := minted[mod]; ok {
			mintedMod = x
		}
		if mintedMod.IsPositive() {
			r.Probe("c11_rebalance_up")
		}
		if x, ok := burned[w.BondedPool.String()]; ok && x.IsPositive() {
			r.Probe("c11_rebalance_down")
		}
		// exact bookkeeping of the rebalance: what is burned from the staking pools is exactly what left the validators,
		// and what is minted is exactly what arrived on them (validator status changes in the same end-of-block move
		// tokens between pools without changing any validator's tokens)
		dec, inc := sdkmath.ZeroInt(), sdkmath.ZeroInt()
		for v, a := range pre.StVals {
			b, ok := post.StVals[v]
			if !ok {
				continue
			}
			if b.Tokens.LT(a.Tokens) {
				dec = dec.Add(a.Tokens.Sub(b.Tokens))
			} else {
				inc = inc.Add(b.Tokens.Sub(a.Tokens))
			}
		}
		burnedPools := sdkmath.ZeroInt()
		for _, acc := range []string{w.BondedPool.String(), w.NotBonded.String()} {
			if x, ok := burned[acc]; ok {
				burnedPools = burnedPools.Add(x)
			}
		}
		if !burnedPools.Equal(dec) {
			r.Violate("C11.a", "burn-differs-from-unbonded-tokens", fmt.Sprintf("end-of-block burned %s %s from the staking pools but validators gave up %s", burnedPools, BondDenom, dec))
			return
		}
		if !mintedMod.Equal(inc) {
			r.Violate("C11.a", "mint-differs-from-bonded-tokens", fmt.Sprintf("end-of-block minted %s %s but validators received %s", mintedMod, BondDenom, inc))
			return
		}
		// (b) the custody account holds no staking-denom coins once the block has ended
		r.Eval("C11.b")
		if b := post.BalOf(w.ModuleAddr, BondDenom); !b.IsZero() {
			cls := "custody-holds-staking-denom"
			if b.Equal(m.residueBond) {
				// rewards withdrawn during this end-of-block's rebalance and left in custody (open finding): burned only next block
				cls = "custody-holds-reward-residue"
			}
			r.Violate("C11.b", cls, fmt.Sprintf("custody account holds %s %s after end-of-block", b, BondDenom))
			if r.failed() {
				return
			}
		}
	case "begin", "slash":
		// real slashes burn a validator's tokens pro rata: the net supply may only fall, by the native share of the burn
		if d.Cmp(tol) > 0 {
			r.Violate("C11.a", "net-supply-rose-on-slash", fmt.Sprintf("%s raised the staking-denom supply net of alliance stake by %s", st.Name, rstr(d)))
			return
		}
		if len(st.Slashes) > 0 {
			r.Probe("c11_real_slash")
		}
	}
	// the bonded pool holds exactly the bonded validators' tokens (x/staking's own module-account invariant)
	r.Eval("C11.a")
	sumBonded := sdkmath.ZeroInt()
	for _, v := range post.StVals {
		if v.IsBonded() {
			sumBonded = sumBonded.Add(v.Tokens)
		}
	}
	if !post.BalOf(w.BondedPool, BondDenom).Equal(sumBonded) {
		r.Violate("C11.a", "bonded-pool-mismatch", fmt.Sprintf("bonded pool holds %s %s, bonded validators' tokens sum to %s", post.BalOf(w.BondedPool, BondDenom), BondDenom, sumBonded))
		return
	}
	// (d) the bank supply queries report the supply net of the alliance-bonded amount
	r.Eval("C11.d")
	// alliance-bonded amount: the module's delegations on bonded validators, summed, then truncated to base units
	bonded := new(big.Rat)
	for v := range post.ModDels {
		if sv, ok := post.StVals[v]; ok && sv.IsBonded() {
			bonded = radd(bonded, post.ModuleStake(v))
		}
	}
	wantNet := rsub(ratInt(post.Supply.AmountOf(BondDenom)), new(big.Rat).SetInt(rfloor(bonded)))
	ctx := r.Branch()
	so, err := w.App.BankKeeper.SupplyOf(ctx, &banktypes.QuerySupplyOfRequest{Denom: BondDenom})
	if err != nil {
		r.Violate("C11.d", "supply-of-error", err.Error())
		return
	}
	// the module truncates each delegation's token value at 18 digits before summing, so its integer
	// alliance-bonded amount may be one base unit below the exact one
	one := big.NewRat(1, 1)
	if !within(ratInt(so.Amount.Amount), wantNet, one) {
		r.Violate("C11.d", "supply-of", fmt.Sprintf("SupplyOf(%s) = %s, supply %s minus alliance-bonded %s = %s", BondDenom, so.Amount.Amount, post.Supply.AmountOf(BondDenom), rstr(bonded), rstr(wantNet)))
		return
	}
	// page-size patterns (cycled): uniform pages, and mixed ones so that the staking denom also lands in the middle
	// and at the end of a key-continued page, not only at its start
	for pi, pat := range [][]uint64{{0}, {1}, {2}, {3}, {1, 2}, {1, 3}, {2, 1, 3}, {1, 1, 2}} {
		lim := pat[0]
		total := sdkmath.ZeroInt()
		seen := 0
		var key []byte
		for i := 0; i < 100; i++ {
			req := &banktypes.QueryTotalSupplyRequest{}
			lim = pat[i%len(pat)]
			if lim > 0 || key != nil {
				req.Pagination = &query.PageRequest{Limit: lim, Key: key}
			}
			ts, err := w.App.BankKeeper.TotalSupply(ctx, req)
			if err != nil {
				r.Violate("C11.d", "total-supply-error", fmt.Sprintf("TotalSupply(limit %d): %v", lim, err))
				return
			}
			for _, c := range ts.Supply {
				if c.Denom == BondDenom {
					total = total.Add(c.Amount)
					seen++
				}
			}
			if ts.Pagination == nil || len(ts.Pagination.NextKey) == 0 {
				break
			}
			key = ts.Pagination.NextKey
		}
		if seen != 1 || !within(ratInt(total), wantNet, one) || !total.Equal(so.Amount.Amount) {
			r.Violate("C11.d", fmt.Sprintf("total-supply:pages%d", pi), fmt.Sprintf("TotalSupply paged with sizes %v lists %s %d time(s) with amount %s, expected once with %s", pat, BondDenom, seen, total, rstr(wantNet)))
			return
		}
	}
}

func minInt(a, b sdkmath.Int) sdkmath.Int {
	if a.LT(b) {
		return a
	}
	return b
}
