package main

import (
	"encoding/json"
	"os"
	"path/filepath"
	"strings"
)

// known_findings.json is committed, never written at run time. An open entry excuses only
// violations whose clause AND fingerprint class match it exactly; the class is computed by the
// monitor from the pre-state (it encodes the precondition of the finding), so a different
// violation of the same property still surfaces.
type KnownFinding struct {
	Status   string   `json:"status"` // open | fixed
	Property string   `json:"property"`
	ID       string   `json:"id"`
	Clause   string   `json:"clause"`
	Classes  []string `json:"classes"` // exact fingerprint classes excused (open entries only)
	What     string   `json:"what"`
	Witness  string   `json:"witness,omitempty"` // replay file under /verif/findings
	Commit   string   `json:"commit,omitempty"`
	Line     string   `json:"line,omitempty"` // "fixed: property=<id> <commit> <what failed>"
}

type KnownFindings struct {
	Entries []KnownFinding `json:"findings"`
	Dir     string         `json:"-"`
}

func loadKnown(verifDir string) *KnownFindings {
	kf := &KnownFindings{Dir: verifDir}
	b, err := os.ReadFile(filepath.Join(verifDir, "known_findings.json"))
	if err != nil {
		return kf
	}
	_ = json.Unmarshal(b, kf)
	return kf
}

// Match returns the id of the open finding that excuses v, or "".
func (k *KnownFindings) Match(v ViolationRec) string {
	for _, e := range k.Entries {
		if e.Status != "open" || e.Clause != v.Clause {
			continue
		}
		for _, c := range e.Classes {
			if c == v.Class || (strings.HasSuffix(c, "*") && strings.HasPrefix(v.Class, strings.TrimSuffix(c, "*"))) {
				return e.ID
			}
		}
	}
	return ""
}

func (k *KnownFindings) ForProperty(p string) []KnownFinding {
	var out []KnownFinding
	for _, e := range k.Entries {
		if e.Property == p {
			out = append(out, e)
		}
	}
	return out
}
