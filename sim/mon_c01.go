package main

import (
	"fmt"
	"math/big"
	"os"

	sdkmath "cosmossdk.io/math"
)

// C01 custody = staked total + pending unbondings (+ unsolicited third-party transfers).
type monC01 struct {
	donated map[string]sdkmath.Int
	residue map[string]sdkmath.Int // rewards the module withdrew into custody and did not forward (known finding)
}

func newMonC01() *monC01 {
	return &monC01{donated: map[string]sdkmath.Int{}, residue: map[string]sdkmath.Int{}}
}

func (m *monC01) Name() string { return "C01" }

func (m *monC01) OnStep(r *Runner, st *Step) {
	// the monitor's own ledger of unsolicited transfers into the custody account
	if st.Kind == "op" && st.Res.OK && st.ROp.Op.K == "donate" && (st.ROp.Op.To == "" || st.ROp.Op.To == "alliance") {
		cur, ok := m.donated[st.ROp.Denom]
		if !ok {
			cur = sdkmath.ZeroInt()
		}
		m.donated[st.ROp.Denom] = cur.Add(st.ROp.Amount)
		r.Probe("c01_donation")
	}
	post := st.Post
	pend := post.PendingUnbonding()
	fl := flowsOf(st.Events)
	// rewards withdrawn but not forwarded, per validator, with the precondition of the open finding checked on the
	// pre-state: the validator has no alliance delegator shares, or no started asset staked on it carries weight
	_, residues := settlementsOf(r, st.Events)
	returned := returnedRewards(r, st.Events) // nobody to credit: back to the fee collector
	residueExcused := true
	for _, rs := range residues {
		if !residuePrecondition(st.Pre, rs.val) && !residuePrecondition(st.Post, rs.val) {
			residueExcused = false
		}
		if os.Getenv("VERIF_C01_DEBUG") != "" {
			fmt.Fprintf(os.Stderr, "C01DEBUG %s residue val=%s coins=%s pre=%v post=%v delegatorShares(pre)=%v\n", st.Name, short(rs.val), rs.coins, residuePrecondition(st.Pre, rs.val), residuePrecondition(st.Post, rs.val), st.Pre.ValInfos[rs.val].TotalDelegatorShares)
		}
	}
	for i := range r.W.Cfg.Assets {
		d := AllianceDenoms[i]
		// reward coins of this denom withdrawn from x/distribution into the custody account and not
		// forwarded to the rewards pool in the same step
		in := netTransfer(fl, r.W.DistrAddr.String(), r.W.ModuleAddr.String(), d)
		fwd := netTransfer(fl, r.W.ModuleAddr.String(), r.W.RewardsAddr.String(), d).Add(returned.AmountOf(d))
		if in.GT(fwd) {
			cur, ok := m.residue[d]
			if !ok {
				cur = sdkmath.ZeroInt()
			}
			m.residue[d] = cur.Add(in.Sub(fwd))
			r.Probe("c01_reward_residue")
			cls := "custody-excess:reward-residue"
			if !residueExcused {
				cls = "custody-excess:rewards-not-forwarded"
			}
			r.Violate("C01.a", cls,
				fmt.Sprintf("denom %s: %s withdrawn from x/distribution into the custody account and %s forwarded to the rewards pool; the rest stays in custody owed to nobody", d, in, fwd))
		}
		custody := post.BalOf(r.W.ModuleAddr, d)
		total := sdkmath.ZeroInt()
		if a, ok := post.Assets[d]; ok {
			total = a.TotalTokens
		}
		p, ok := pend[d]
		if !ok {
			p = sdkmath.ZeroInt()
		}
		don, ok := m.donated[d]
		if !ok {
			don = sdkmath.ZeroInt()
		}
		r.Eval("C01.a")
		if total.IsPositive() && p.IsPositive() {
			r.Nontrivial()
			r.Probe("c01_staked_and_pending")
		}
		res, ok := m.residue[d]
		if !ok {
			res = sdkmath.ZeroInt()
		}
		want := total.Add(p).Add(don).Add(res)
		if !custody.Equal(want) {
			dir := "short"
			if custody.GT(want) {
				dir = "excess"
			}
			r.Violate("C01.a", "custody-"+dir+":"+st.Kind+":"+stepOpKind(st),
				fmt.Sprintf("denom %s: custody %s != staked %s + pending %s + donated %s + reward residue %s (diff %s)", d, custody, total, p, don, res, custody.Sub(want)))
			return
		}
	}
	// (b) a failed transaction leaves the module store and the custody account untouched
	if (st.Kind == "op" || st.Kind == "slash") && st.Res != nil && !st.Res.OK {
		r.Eval("C01.b")
		if st.Pre.Digest() != st.Post.Digest() || !st.Pre.Bal[r.W.ModuleAddr.String()].Equal(st.Post.Bal[r.W.ModuleAddr.String()]) {
			r.Violate("C01.b", "failed-op-changed-state", fmt.Sprintf("failed %s changed module state", st.Name))
		}
	}
}

func (m *monC01) Finish(r *Runner) {}

func stepOpKind(st *Step) string {
	if st.ROp != nil && st.ROp.Op != nil {
		return st.ROp.Op.K
	}
	return "-"
}

// C17 end-of-block never fails: the runner itself raises C17.a when Begin/EndBlock of the real
// module manager errors or panics inside x/alliance; this monitor adds the reach accounting.
type monC17 struct{ endBlocks int }

func newMonC17() *monC17 { return &monC17{} }

func (m *monC17) Name() string { return "C17" }

func (m *monC17) OnStep(r *Runner, st *Step) {
	if st.Kind != "end" {
		return
	}
	m.endBlocks++
	r.Eval("C17.a")
	post := st.Post
	if post.HasParams {
		if post.Params.TakeRateClaimInterval <= 1000 {
			r.Probe("c17_tiny_claim_interval")
			r.Nontrivial()
		}
	}
	for _, a := range post.Assets {
		if a.TotalTokens.IsPositive() && a.TotalTokens.LT(sdkmath.NewInt(10)) {
			r.Probe("c17_dust_asset")
			r.Nontrivial()
		}
	}
	for _, v := range post.StVals {
		if v.Jailed {
			r.Probe("c17_jailed_validator")
			r.Nontrivial()
			break
		}
	}
	if len(st.Pre.UndelQueue) > len(post.UndelQueue) {
		r.Probe("c17_unbonding_matured")
		r.Nontrivial()
	}
	if st.Tail {
		r.Eval("C17.tail")
	}
}

func (m *monC17) Finish(r *Runner) {}

// residuePrecondition: rewards for val cannot be attributed to anyone - it has no alliance delegator shares,
// or the staked reward weight of every started asset on it is (or rounds to) zero.
func residuePrecondition(s *Snap, val string) bool {
	vi, ok := s.ValInfos[val]
	if !ok || len(vi.TotalDelegatorShares) == 0 {
		return true
	}
	for _, d := range s.AssetOrder {
		a := s.Assets[d]
		if a.TotalTokens.IsZero() || s.Time.Before(a.RewardStartTime) {
			continue
		}
		K := s.ValTokens(val, d)
		if K.Sign() == 0 {
			continue
		}
		// the module works with round18(validator shares / total shares) and truncates weight x tokens / total at
		// 10^-18: a validator fraction or a staked weight of a few ulps may or may not survive that, and only
		// clearly representable ones are held against the finding's precondition
		frac := rquo(K, ratInt(a.TotalTokens))
		w := rmul(ratDec(a.RewardWeight), frac)
		if frac.Cmp(big.NewRat(4, 1_000_000_000_000_000_000)) >= 0 && w.Cmp(big.NewRat(10, 1_000_000_000_000_000_000)) >= 0 {
			return false // some asset carries representable weight: the rewards belong to its delegators
		}
	}
	return true
}
