package main

import (
	"encoding/json"
	"fmt"
	"github.com/cosmos/cosmos-sdk/types/address"
	"os"
	"strings"
	"sync"
	"time"

	coreheader "cosmossdk.io/core/header"
	"cosmossdk.io/log"
	sdkmath "cosmossdk.io/math"
	abci "github.com/cometbft/cometbft/abci/types"
	cmtproto "github.com/cometbft/cometbft/proto/tendermint/types"
	dbm "github.com/cosmos/cosmos-db"
	"github.com/cosmos/cosmos-sdk/baseapp"
	codectypes "github.com/cosmos/cosmos-sdk/codec/types"
	"github.com/cosmos/cosmos-sdk/crypto/keys/ed25519"
	"github.com/cosmos/cosmos-sdk/crypto/keys/secp256k1"
	cryptotypes "github.com/cosmos/cosmos-sdk/crypto/types"
	simtestutil "github.com/cosmos/cosmos-sdk/testutil/sims"
	sdk "github.com/cosmos/cosmos-sdk/types"
	authtypes "github.com/cosmos/cosmos-sdk/x/auth/types"
	banktypes "github.com/cosmos/cosmos-sdk/x/bank/types"
	distrtypes "github.com/cosmos/cosmos-sdk/x/distribution/types"
	govtypes "github.com/cosmos/cosmos-sdk/x/gov/types"
	minttypes "github.com/cosmos/cosmos-sdk/x/mint/types"
	slashingtypes "github.com/cosmos/cosmos-sdk/x/slashing/types"
	stakingtypes "github.com/cosmos/cosmos-sdk/x/staking/types"

	allianceapp "github.com/terra-money/alliance/app"
	alliancetypes "github.com/terra-money/alliance/x/alliance/types"
)

const (
	ChainID   = "sim"
	BondDenom = "stake"
)

// The four bank denoms that can become alliance assets (index = AssetCfg index).
// The names are related on purpose: "alpha" is a suffix of "ualpha", "ualpha" a prefix of "ualpha2"
// (key parsing and suffix/prefix matching in indexes and queries must not confuse them).
var AllianceDenoms = []string{
	"ibc/A1A1A1A1A1A1A1A1A1A1A1A1A1A1A1A1A1A1A1A1A1A1A1A1A1A1A1A1A1A1A1A1",
	"ualpha",
	"alpha",
	"ualpha2",
}

// An extra fee denom that is never an alliance asset: gives rewards in a second denomination.
const FeeDenom = "ufee"

var GenesisTime = time.Date(2030, 1, 1, 0, 0, 0, 0, time.UTC)

// ---------------------------------------------------------------------------
// capturing logger (seam: log.Logger given to app.New). Never touches a PRNG or a clock.
// ---------------------------------------------------------------------------

type LogLine struct {
	Level string
	Msg   string
	KV    string
}

type capLogger struct {
	mu    *sync.Mutex
	lines *[]LogLine
	with  string
}

func newCapLogger() *capLogger {
	return &capLogger{mu: &sync.Mutex{}, lines: &[]LogLine{}}
}

func (l *capLogger) add(level, msg string, kv ...any) {
	if level == "debug" || level == "info" {
		return // not needed by any oracle; keeps runs cheap
	}
	var sb strings.Builder
	sb.WriteString(l.with)
	for i := 0; i+1 < len(kv); i += 2 {
		fmt.Fprintf(&sb, " %v=%v", kv[i], kv[i+1])
	}
	l.mu.Lock()
	*l.lines = append(*l.lines, LogLine{Level: level, Msg: msg, KV: sb.String()})
	l.mu.Unlock()
}
func (l *capLogger) Info(msg string, kv ...any)  { l.add("info", msg, kv...) }
func (l *capLogger) Warn(msg string, kv ...any)  { l.add("warn", msg, kv...) }
func (l *capLogger) Error(msg string, kv ...any) { l.add("error", msg, kv...) }
func (l *capLogger) Debug(msg string, kv ...any) { l.add("debug", msg, kv...) }
func (l *capLogger) With(kv ...any) log.Logger {
	var sb strings.Builder
	sb.WriteString(l.with)
	for i := 0; i+1 < len(kv); i += 2 {
		fmt.Fprintf(&sb, " %v=%v", kv[i], kv[i+1])
	}
	return &capLogger{mu: l.mu, lines: l.lines, with: sb.String()}
}
func (l *capLogger) Impl() any { return l }

// Drain returns and clears the captured lines.
func (l *capLogger) Drain() []LogLine {
	l.mu.Lock()
	defer l.mu.Unlock()
	out := *l.lines
	*l.lines = nil
	return out
}

// ---------------------------------------------------------------------------
// Actors
// ---------------------------------------------------------------------------

type Actor struct {
	Name string
	Priv cryptotypes.PrivKey
	Addr sdk.AccAddress
}

type ValActor struct {
	Idx      int
	Operator Actor
	ConsPriv cryptotypes.PrivKey
	ConsAddr sdk.ConsAddress
	ValAddr  sdk.ValAddress
	Genesis  bool
}

func mkActor(name string) Actor {
	priv := secp256k1.GenPrivKeyFromSecret([]byte("verif-sim/" + name))
	return Actor{Name: name, Priv: priv, Addr: sdk.AccAddress(priv.PubKey().Address())}
}

func mkVal(i int, genesis bool) ValActor {
	op := mkActor(fmt.Sprintf("operator-%d", i))
	cons := ed25519.GenPrivKeyFromSecret([]byte(fmt.Sprintf("verif-sim/cons-%d", i)))
	return ValActor{Idx: i, Operator: op, ConsPriv: cons, ConsAddr: sdk.ConsAddress(cons.PubKey().Address()), ValAddr: sdk.ValAddress(op.Addr), Genesis: genesis}
}

// ---------------------------------------------------------------------------
// World
// ---------------------------------------------------------------------------

const MaxExtraValidators = 2

type World struct {
	Cfg Config
	DB  dbm.DB
	App *allianceapp.App
	Log *capLogger
	Dir string

	Delegators []Actor
	Natives    []Actor
	Third      Actor
	Prober     Actor
	Vals       []ValActor // genesis validators followed by the slots for create_validator

	ModuleAddr   sdk.AccAddress
	RewardsAddr  sdk.AccAddress
	FeeCollector sdk.AccAddress
	GovAddr      sdk.AccAddress
	BondedPool   sdk.AccAddress
	NotBonded    sdk.AccAddress
	DistrAddr    sdk.AccAddress

	Height int64
	Now    time.Time

	Restarts int
}

func mustInt(s string) sdkmath.Int {
	i, ok := sdkmath.NewIntFromString(s)
	if !ok {
		panic("bad int " + s)
	}
	return i
}

func mustDec(s string) sdkmath.LegacyDec {
	d, err := sdkmath.LegacyNewDecFromStr(s)
	if err != nil {
		panic("bad dec " + s + ": " + err.Error())
	}
	return d
}

func newApp(db dbm.DB, logger log.Logger, dir string) *allianceapp.App {
	return allianceapp.New(logger, db, nil, true, map[int64]bool{}, dir, 0, allianceapp.EmptyAppOptions{}, baseapp.SetChainID(ChainID))
}

// userFunds is what every delegator holds of an alliance denom at genesis: 10^4 operation units
// (at least 10^6 base units) so that the schedule never runs dry by accident.
func userFunds(a AssetCfg) sdkmath.Int {
	u := mustInt(a.Unit)
	f := u.MulRaw(10000)
	if f.LT(sdkmath.NewInt(1_000_000)) {
		f = sdkmath.NewInt(1_000_000)
	}
	return f
}

func NewWorld(cfg Config) (*World, error) {
	dir, err := os.MkdirTemp("", "verifsim-home-")
	if err != nil {
		return nil, err
	}
	w := &World{Cfg: cfg, DB: dbm.NewMemDB(), Log: newCapLogger(), Dir: dir}
	w.App = newApp(w.DB, w.Log, dir)

	for i := 0; i < cfg.Delegators; i++ {
		a := mkActor(fmt.Sprintf("delegator-%d", i))
		if i == 0 && cfg.LongAddrDelegator {
			a.Addr = sdk.AccAddress(address.Module("verif-sim", []byte(a.Name)))
		}
		w.Delegators = append(w.Delegators, a)
	}
	for i := 0; i < cfg.Natives; i++ {
		w.Natives = append(w.Natives, mkActor(fmt.Sprintf("native-%d", i)))
	}
	w.Third = mkActor("third-party")
	w.Prober = mkActor("prober")
	for i := range cfg.Validators {
		w.Vals = append(w.Vals, mkVal(i, true))
	}
	for i := 0; i < MaxExtraValidators; i++ {
		w.Vals = append(w.Vals, mkVal(len(cfg.Validators)+i, false))
	}
	w.ModuleAddr = authtypes.NewModuleAddress(alliancetypes.ModuleName)
	w.RewardsAddr = authtypes.NewModuleAddress(alliancetypes.RewardsPoolName)
	w.FeeCollector = authtypes.NewModuleAddress(authtypes.FeeCollectorName)
	w.GovAddr = authtypes.NewModuleAddress(govtypes.ModuleName)
	w.BondedPool = authtypes.NewModuleAddress(stakingtypes.BondedPoolName)
	w.NotBonded = authtypes.NewModuleAddress(stakingtypes.NotBondedPoolName)
	w.DistrAddr = authtypes.NewModuleAddress(distrtypes.ModuleName)

	moduleAddrStr, rewardsAddrStr, feeAddrStr = w.ModuleAddr.String(), w.RewardsAddr.String(), w.FeeCollector.String()
	if err := w.initChain(); err != nil {
		return nil, err
	}
	return w, nil
}

func (w *World) Close() {
	_ = os.RemoveAll(w.Dir)
}

func (w *World) allUsers() []Actor {
	var out []Actor
	out = append(out, w.Delegators...)
	out = append(out, w.Natives...)
	out = append(out, w.Third, w.Prober)
	for _, v := range w.Vals {
		out = append(out, v.Operator)
	}
	return out
}

func (w *World) initChain() error {
	app := w.App
	cdc := app.AppCodec()
	gs := app.DefaultGenesis()
	cfg := w.Cfg

	// ---- auth + bank
	var genAccs []authtypes.GenesisAccount
	var balances []banktypes.Balance
	supply := sdk.NewCoins()
	bigStake := sdkmath.NewInt(1_000_000_000_000_000) // 10^15 stake for everyone who may stake natively
	for _, u := range w.allUsers() {
		genAccs = append(genAccs, authtypes.NewBaseAccount(u.Addr, u.Priv.PubKey(), 0, 0))
		coins := sdk.NewCoins(sdk.NewCoin(BondDenom, bigStake), sdk.NewCoin(FeeDenom, bigStake))
		for i, a := range cfg.Assets {
			coins = coins.Add(sdk.NewCoin(AllianceDenoms[i], userFunds(a)))
		}
		balances = append(balances, banktypes.Balance{Address: u.Addr.String(), Coins: coins})
		supply = supply.Add(coins...)
	}
	gs[authtypes.ModuleName] = cdc.MustMarshalJSON(authtypes.NewGenesisState(authtypes.DefaultParams(), genAccs))

	// ---- staking
	var vals []stakingtypes.Validator
	var dels []stakingtypes.Delegation
	var signing []slashingtypes.SigningInfo
	bonded := sdkmath.ZeroInt()
	for i, vc := range cfg.Validators {
		va := w.Vals[i]
		pkAny, err := codectypes.NewAnyWithValue(va.ConsPriv.PubKey())
		if err != nil {
			return err
		}
		tokens := mustInt(vc.SelfBond)
		comm := mustDec(vc.Commission)
		vals = append(vals, stakingtypes.Validator{
			OperatorAddress:   va.ValAddr.String(),
			ConsensusPubkey:   pkAny,
			Status:            stakingtypes.Bonded,
			Tokens:            tokens,
			DelegatorShares:   sdkmath.LegacyNewDecFromInt(tokens),
			Description:       stakingtypes.Description{Moniker: fmt.Sprintf("val-%d", i)},
			UnbondingTime:     time.Unix(0, 0).UTC(),
			Commission:        stakingtypes.NewCommission(comm, sdkmath.LegacyOneDec(), sdkmath.LegacyOneDec()),
			MinSelfDelegation: sdkmath.OneInt(),
		})
		dels = append(dels, stakingtypes.NewDelegation(va.Operator.Addr.String(), va.ValAddr.String(), sdkmath.LegacyNewDecFromInt(tokens)))
		bonded = bonded.Add(tokens)
		signing = append(signing, slashingtypes.SigningInfo{
			Address: va.ConsAddr.String(),
			ValidatorSigningInfo: slashingtypes.ValidatorSigningInfo{
				Address:     va.ConsAddr.String(),
				JailedUntil: time.Unix(0, 0).UTC(),
			},
		})
	}
	sp := stakingtypes.DefaultParams()
	sp.BondDenom = BondDenom
	sp.UnbondingTime = time.Duration(cfg.UnbondingTimeNs)
	sp.MaxValidators = cfg.MaxValidators
	sp.MaxEntries = 100
	gs[stakingtypes.ModuleName] = cdc.MustMarshalJSON(stakingtypes.NewGenesisState(sp, vals, dels))
	balances = append(balances, banktypes.Balance{Address: w.BondedPool.String(), Coins: sdk.NewCoins(sdk.NewCoin(BondDenom, bonded))})
	supply = supply.Add(sdk.NewCoin(BondDenom, bonded))
	gs[banktypes.ModuleName] = cdc.MustMarshalJSON(banktypes.NewGenesisState(banktypes.DefaultGenesisState().Params, balances, supply, []banktypes.Metadata{}, []banktypes.SendEnabled{}))

	// ---- slashing
	slp := slashingtypes.DefaultParams()
	slp.SignedBlocksWindow = cfg.SignedWindow
	slp.MinSignedPerWindow = mustDec(cfg.MinSigned)
	slp.DowntimeJailDuration = time.Duration(cfg.JailNs)
	slp.SlashFractionDoubleSign = mustDec(cfg.SlashDoubleSign)
	slp.SlashFractionDowntime = mustDec(cfg.SlashDowntime)
	gs[slashingtypes.ModuleName] = cdc.MustMarshalJSON(slashingtypes.NewGenesisState(slp, signing, nil))

	// ---- mint
	var mg minttypes.GenesisState
	cdc.MustUnmarshalJSON(gs[minttypes.ModuleName], &mg)
	infl := mustDec(cfg.Inflation)
	mg.Minter.Inflation = infl
	mg.Params.MintDenom = BondDenom
	mg.Params.InflationMin = infl
	mg.Params.InflationMax = infl
	mg.Params.InflationRateChange = sdkmath.LegacyZeroDec()
	if cfg.BlocksPerYear > 0 {
		mg.Params.BlocksPerYear = cfg.BlocksPerYear
	}
	gs[minttypes.ModuleName] = cdc.MustMarshalJSON(&mg)

	// ---- distribution
	var dg distrtypes.GenesisState
	cdc.MustUnmarshalJSON(gs[distrtypes.ModuleName], &dg)
	dg.Params.CommunityTax = mustDec(cfg.CommunityTax)
	gs[distrtypes.ModuleName] = cdc.MustMarshalJSON(&dg)

	// ---- alliance
	ag := alliancetypes.GenesisState{
		Params: alliancetypes.Params{
			RewardDelayTime:       time.Duration(cfg.RewardDelayNs),
			TakeRateClaimInterval: time.Duration(cfg.TakeRateIntvlNs),
			LastTakeRateClaimTime: time.Time{},
		},
	}
	for i, a := range cfg.Assets {
		if !a.Genesis {
			continue
		}
		start := GenesisTime.Add(time.Duration(a.StartDelayNs))
		as := alliancetypes.NewAllianceAsset(AllianceDenoms[i], mustDec(a.Weight), mustDec(a.WeightMin), mustDec(a.WeightMax), mustDec(a.TakeRate), start)
		as.RewardChangeRate = mustDec(a.ChangeRate)
		as.RewardChangeInterval = time.Duration(a.ChangeIntvlNs)
		ag.Assets = append(ag.Assets, as)
	}
	gs[alliancetypes.ModuleName] = cdc.MustMarshalJSON(&ag)

	stateBytes, err := json.Marshal(gs)
	if err != nil {
		return err
	}
	if _, err = app.InitChain(&abci.RequestInitChain{
		ChainId:         ChainID,
		Time:            GenesisTime,
		Validators:      []abci.ValidatorUpdate{},
		ConsensusParams: simtestutil.DefaultConsensusParams,
		AppStateBytes:   stateBytes,
		InitialHeight:   1,
	}); err != nil {
		return fmt.Errorf("InitChain: %w", err)
	}
	if _, err = app.FinalizeBlock(&abci.RequestFinalizeBlock{Height: 1, Time: GenesisTime}); err != nil {
		return fmt.Errorf("FinalizeBlock(1): %w", err)
	}
	if _, err = app.Commit(); err != nil {
		return fmt.Errorf("Commit(1): %w", err)
	}
	w.Height = 1
	w.Now = GenesisTime
	return nil
}

// Reopen drops the application object and opens a new one on the same database: everything
// that was not committed is gone (crash/restart fault).
func (w *World) Reopen() {
	w.App = nil
	w.App = newApp(w.DB, w.Log, w.Dir)
	w.Restarts++
}

// Ctx builds the uncached root context for the block currently being executed.
func (w *World) Ctx() sdk.Context {
	return w.CtxAt(w.Height, w.Now, nil)
}

func (w *World) header(height int64, now time.Time, proposer sdk.ConsAddress) cmtproto.Header {
	h := cmtproto.Header{ChainID: ChainID, Height: height, Time: now}
	if proposer != nil {
		h.ProposerAddress = proposer
	}
	return h
}

func (w *World) CtxAt(height int64, now time.Time, proposer sdk.ConsAddress) sdk.Context {
	h := w.header(height, now, proposer)
	ctx := w.App.BaseApp.NewUncachedContext(false, h)
	return ctx.WithBlockHeader(h).WithChainID(ChainID).WithConsensusParams(*simtestutil.DefaultConsensusParams).
		WithHeaderInfo(coreheader.Info{ChainID: ChainID, Height: height, Time: now})
}
