package main

import (
	"time"
)

// Minimise shrinks a failing schedule while the violation keeps the same clause and
// fingerprint class. Domain-aware delta debugging: truncate, drop blocks (merging their time gap
// into the next block so absolute instants are kept), drop ops, simplify ops and faults.
func Minimise(s *Schedule, target *ViolationRec, kf *KnownFindings, budget time.Duration) (*Schedule, *ViolationRec) {
	deadline := time.Now().Add(budget)
	prop := s.Property
	if target != nil {
		prop = target.Property
	}
	fails := func(c *Schedule) *ViolationRec {
		if time.Now().After(deadline) {
			return nil
		}
		r, err := executeSchedule(c, prop, kf, false)
		if err != nil {
			return nil
		}
		for _, v := range r.Viols {
			if target == nil || (v.Clause == target.Clause && v.Class == target.Class) {
				vv := v
				return &vv
			}
		}
		return nil
	}
	cur := cloneSchedule(s)
	curV := fails(cur)
	if curV == nil {
		return nil, nil
	}
	// 1. truncate after the violating block (the tail is only needed for tail clauses)
	if curV.Block+1 < len(cur.Blocks) {
		c := cloneSchedule(cur)
		c.Blocks = c.Blocks[:curV.Block+1]
		if c.TailFrom > len(c.Blocks) {
			c.TailFrom = len(c.Blocks)
		}
		if v := fails(c); v != nil {
			cur, curV = c, v
		}
	}
	changed := true
	for changed && time.Now().Before(deadline) {
		changed = false
		// 2. drop blocks, chunk sizes halving
		for chunk := len(cur.Blocks) / 2; chunk >= 1; chunk /= 2 {
			for i := 0; i+chunk <= len(cur.Blocks); {
				if time.Now().After(deadline) {
					break
				}
				c := dropBlocks(cur, i, chunk, true)
				v := fails(c)
				if v == nil {
					c = dropBlocks(cur, i, chunk, false)
					v = fails(c)
				}
				if v != nil {
					cur, curV = c, v
					changed = true
				} else {
					i += chunk
				}
			}
		}
		// 3. drop ops, slashes, evidence, absences
		for bi := 0; bi < len(cur.Blocks); bi++ {
			for oi := 0; oi < len(cur.Blocks[bi].Ops); {
				if time.Now().After(deadline) {
					break
				}
				c := cloneSchedule(cur)
				c.Blocks[bi].Ops = append(c.Blocks[bi].Ops[:oi:oi], c.Blocks[bi].Ops[oi+1:]...)
				if v := fails(c); v != nil {
					cur, curV = c, v
					changed = true
				} else {
					oi++
				}
			}
			for si := 0; si < len(cur.Blocks[bi].Slashes); {
				c := cloneSchedule(cur)
				c.Blocks[bi].Slashes = append(c.Blocks[bi].Slashes[:si:si], c.Blocks[bi].Slashes[si+1:]...)
				if v := fails(c); v != nil {
					cur, curV = c, v
					changed = true
				} else {
					si++
				}
			}
			if len(cur.Blocks[bi].Evidence) > 0 {
				c := cloneSchedule(cur)
				c.Blocks[bi].Evidence = nil
				if v := fails(c); v != nil {
					cur, curV = c, v
					changed = true
				}
			}
			if len(cur.Blocks[bi].Absent) > 0 {
				c := cloneSchedule(cur)
				c.Blocks[bi].Absent = nil
				if v := fails(c); v != nil {
					cur, curV = c, v
					changed = true
				}
			}
			if cur.Blocks[bi].Crash != "" {
				c := cloneSchedule(cur)
				c.Blocks[bi].Crash = ""
				if v := fails(c); v != nil {
					cur, curV = c, v
					changed = true
				}
			}
		}
	}
	// 4. simplify remaining ops: drop gas/dup
	for bi := range cur.Blocks {
		for oi := range cur.Blocks[bi].Ops {
			op := cur.Blocks[bi].Ops[oi]
			if op.Gas != 0 || op.Dup != 0 {
				c := cloneSchedule(cur)
				c.Blocks[bi].Ops[oi].Gas = 0
				c.Blocks[bi].Ops[oi].Dup = 0
				if v := fails(c); v != nil {
					cur, curV = c, v
				}
			}
		}
	}
	// 5. simplify config: fewer validators / assets / delegators when indices allow
	for time.Now().Before(deadline) {
		c := cloneSchedule(cur)
		ok := false
		if len(c.Config.Validators) > 2 {
			c.Config.Validators = c.Config.Validators[:len(c.Config.Validators)-1]
			ok = true
		}
		if !ok {
			break
		}
		if v := fails(c); v != nil {
			cur, curV = c, v
		} else {
			break
		}
	}
	return cur, curV
}

func dropBlocks(s *Schedule, i, n int, mergeDt bool) *Schedule {
	c := cloneSchedule(s)
	var carried int64
	if mergeDt {
		for _, b := range c.Blocks[i : i+n] {
			if b.Dt.To == "" {
				carried += b.Dt.Ns
			}
		}
	}
	c.Blocks = append(c.Blocks[:i:i], c.Blocks[i+n:]...)
	if mergeDt && i < len(c.Blocks) && c.Blocks[i].Dt.To == "" {
		c.Blocks[i].Dt.Ns += carried
	}
	if c.TailFrom > i {
		c.TailFrom -= n
		if c.TailFrom < i {
			c.TailFrom = i
		}
	}
	return c
}
