package main

import (
	"fmt"
	"sort"
	"strings"

	sdkmath "cosmossdk.io/math"
)

// C02 unbonding payout: exactly once, exact amount, never early.
type monC02 struct {
	L    Ledger
	dead bool
}

func newMonC02() *monC02       { return &monC02{} }
func (m *monC02) Name() string { return "C02" }

func (m *monC02) OnStep(r *Runner, st *Step) {
	if m.dead {
		return
	}
	if hookFailed(st) {
		// C08's finding: the slash was only partly applied; "slashes applied while pending" is no longer known
		m.dead = true
		r.Probe("run_abandoned_after_hook_error")
		return
	}
	post := st.Post
	switch st.Kind {
	case "op":
		if st.ROp.Op.K == "undelegate" && st.Res.OK {
			e := m.L.OnUndelegate(st)
			r.Eval("C02.a")
			// (a) exactly one new entry with the model's completion time and the requested amount
			if len(m.bucketEntries(post, e)) == 0 {
				r.Violate("C02.a", "entry-missing", fmt.Sprintf("undelegate %s of %s from %s: no unbonding entry with completion %s", e.Amount, e.Denom, short(e.Val), e.Completion))
				return
			}
			same := 0
			for _, u := range m.L.PendingU() {
				if u.Del == e.Del && u.Completion.Equal(e.Completion) {
					same++
				}
			}
			if same > 1 {
				r.Probe("c02_shared_bucket")
				r.Nontrivial()
			}
		}
	case "begin", "slash":
		for _, s := range st.Slashes {
			m.L.OnSlash(s.Val, s.Fraction, post.Time)
		}
	case "end":
		matured := m.L.Mature(post.Time)
		exp := map[string]sdkmath.Int{}
		for _, e := range matured {
			k := e.Del + "|" + e.Denom
			cur, ok := exp[k]
			if !ok {
				cur = sdkmath.ZeroInt()
			}
			exp[k] = cur.Add(e.Amount)
			if e.Slashes > 0 {
				r.Probe("c02_paid_after_slash")
			}
			gap := post.Time.Sub(e.Completion)
			if gap <= 2 {
				r.Probe("c02_paid_at_boundary")
			}
		}
		if len(matured) > 0 {
			r.Nontrivial()
			r.Probe("c02_payout")
		}
		// never-early probe: an entry whose completion equals this block time must stay
		for _, e := range m.L.PendingU() {
			if e.Completion.Equal(post.Time) {
				r.Probe("c02_completion_equals_blocktime")
			}
		}
		// (b) payments = transfers out of the custody account to user accounts during EndBlock
		got := map[string]sdkmath.Int{}
		mod := r.W.ModuleAddr.String()
		for _, f := range flowsOf(st.Events) {
			if f.Kind != "transfer" || f.From != mod {
				continue
			}
			if f.To == r.W.FeeCollector.String() || f.To == r.W.RewardsAddr.String() {
				continue // take-rate / reward forwarding
			}
			for _, c := range f.Coins {
				if c.Denom == BondDenom {
					continue
				}
				k := f.To + "|" + c.Denom
				cur, ok := got[k]
				if !ok {
					cur = sdkmath.ZeroInt()
				}
				got[k] = cur.Add(c.Amount)
			}
		}
		r.Eval("C02.b")
		keys := map[string]bool{}
		for k := range exp {
			keys[k] = true
		}
		for k := range got {
			keys[k] = true
		}
		var ks []string
		for k := range keys {
			ks = append(ks, k)
		}
		sort.Strings(ks)
		for _, k := range ks {
			e, ok := exp[k]
			if !ok {
				e = sdkmath.ZeroInt()
			}
			g, ok := got[k]
			if !ok {
				g = sdkmath.ZeroInt()
			}
			if !e.Equal(g) {
				cls := "payout-amount"
				switch {
				case e.IsZero():
					cls = "payout-unexpected"
				case g.IsZero():
					cls = "payout-missing"
				case g.GT(e):
					cls = "payout-too-much"
				case g.LT(e):
					cls = "payout-too-little"
				}
				parts := strings.SplitN(k, "|", 2)
				r.Violate("C02.b", cls, fmt.Sprintf("end-of-block at %s paid %s %s to %s, matured entries sum to %s", post.Time, g, parts[1], short(parts[0]), e))
				return
			}
		}
		// the delegator's bank balance must actually rise by the payout
		for _, k := range ks {
			parts := strings.SplitN(k, "|", 2)
			pre := st.Pre.Bal[parts[0]].AmountOf(parts[1])
			now := post.Bal[parts[0]].AmountOf(parts[1])
			if _, tracked := post.Bal[parts[0]]; tracked && now.Sub(pre).LT(exp[k]) {
				r.Violate("C02.b", "balance-not-credited", fmt.Sprintf("%s balance of %s rose by %s, payout %s", short(parts[0]), parts[1], now.Sub(pre), exp[k]))
				return
			}
		}
	}
	// (c) after every step the module's pending entries are exactly the ledger's pending entries,
	// and the per-validator lookup index matches them in both directions
	r.Eval("C02.c")
	onlyStore, onlyLedger := diffMultiset(storeUnbondingKeys(post), m.L.unbondingKeys())
	if len(onlyStore)+len(onlyLedger) > 0 {
		clause, cls := "C02.c", "entries-mismatch:"+st.Kind
		if st.Kind == "begin" || st.Kind == "slash" {
			// a mismatch produced by a slash is C07's clause; reported under C02 only as "payout would be wrong"
			cls = "entries-mismatch-after-slash"
		}
		if st.Kind == "end" {
			switch {
			case len(onlyStore) > 0 && len(onlyLedger) == 0:
				cls = "entry-left-behind"
			case len(onlyLedger) > 0 && len(onlyStore) == 0:
				cls = "entry-removed-early"
			}
		}
		r.Violate(clause, cls, fmt.Sprintf("store-only %v ledger-only %v", trimList(onlyStore), trimList(onlyLedger)))
		return
	}
	// index <-> entries
	want := map[string]bool{}
	for _, q := range post.UndelQueue {
		for _, e := range q.Entries {
			want[fmt.Sprintf("%s|%d|%s|%s", e.ValidatorAddress, q.Completion.UnixNano(), e.Balance.Denom, q.Del)] = true
		}
	}
	have := map[string]bool{}
	for _, ix := range post.UndelIdx {
		have[fmt.Sprintf("%s|%d|%s|%s", ix.Val, ix.Completion.UnixNano(), ix.Denom, ix.Del)] = true
	}
	for _, k := range sortedKeys(want) {
		if !have[k] {
			r.Violate("C02.c", "index-missing", "no per-validator index key for pending entry "+k)
			return
		}
	}
	for _, k := range sortedKeys(have) {
		if !want[k] {
			r.Violate("C02.c", "index-orphan", "per-validator index key without pending entry "+k)
			return
		}
	}
}

func (m *monC02) bucketEntries(s *Snap, e *UEntry) []string {
	var out []string
	for _, q := range s.UndelQueue {
		if q.Del != e.Del || !q.Completion.Equal(e.Completion) {
			continue
		}
		for _, x := range q.Entries {
			if x.ValidatorAddress == e.Val && x.Balance.Denom == e.Denom {
				out = append(out, x.Balance.String())
			}
		}
	}
	return out
}

func (m *monC02) Finish(r *Runner) {
	if r.Halted || m.dead {
		return
	}
	r.Eval("C02.e")
	if n := len(m.L.PendingU()); n > 0 {
		e := m.L.PendingU()[0]
		r.Violate("C02.e", "tail-unpaid", fmt.Sprintf("%d unbonding entries still unpaid after the quiescent tail (first: %s %s completion %s)", n, e.Amount, e.Denom, e.Completion))
	}
}

func trimList(l []string) []string {
	if len(l) > 4 {
		return append(l[:4:4], fmt.Sprintf("... %d more", len(l)-4))
	}
	return l
}

func sortedKeys(m map[string]bool) []string {
	out := make([]string, 0, len(m))
	for k := range m {
		out = append(out, k)
	}
	sort.Strings(out)
	return out
}
