package main

import (
	"encoding/json"
	"fmt"
	"sort"
	"strings"

	sdkmath "cosmossdk.io/math"
	sdk "github.com/cosmos/cosmos-sdk/types"
	"github.com/cosmos/cosmos-sdk/types/query"

	"github.com/terra-money/alliance/x/alliance/bindings"
	bindingtypes "github.com/terra-money/alliance/x/alliance/bindings/types"
	alliancetypes "github.com/terra-money/alliance/x/alliance/types"
)

// C20 queries are exact views of delegations, unbondings and redelegations.
type monC20 struct {
	L    Ledger
	step int
}

func newMonC20() *monC20           { return &monC20{} }
func (m *monC20) Name() string     { return "C20" }
func (m *monC20) Finish(r *Runner) {}

func unbKey(val, denom string, amt sdkmath.Int, t int64) string {
	return fmt.Sprintf("%s|%s|%s|%d", val, denom, amt, t)
}

func renderUnb(l []alliancetypes.UnbondingDelegation) []string {
	var out []string
	for _, u := range l {
		out = append(out, unbKey(u.ValidatorAddress, u.Denom, u.Amount, u.CompletionTime.UnixNano()))
	}
	sort.Strings(out)
	return out
}

func (m *monC20) OnStep(r *Runner, st *Step) {
	m.step++
	feedLedger(&m.L, st)
	s := st.Post
	// large states (floods: several hundred pending entries and delegation records): every query is compared on
	// every fourth step and right after every slash, so that one such run stays within seconds
	if len(s.UndelQueue)+len(s.Dels) > 120 && m.step%4 != 0 && len(st.Slashes) == 0 {
		r.Probe("c20_large_state_step_skipped")
		return
	}
	ctx := r.Branch()
	// reference enumeration of unbonding entries per delegator
	type ent struct {
		val, denom string
		amt        sdkmath.Int
		t          int64
	}
	byDel := map[string][]ent{}
	for _, q := range s.UndelQueue {
		for _, e := range q.Entries {
			byDel[q.Del] = append(byDel[q.Del], ent{e.ValidatorAddress, e.Balance.Denom, e.Balance.Amount, q.Completion.UnixNano()})
		}
		if len(q.Entries) > 1 {
			r.Probe("c20_bucket_with_several_entries")
			r.Nontrivial()
		}
	}
	dels := r.W.Delegators
	// large states (floods): the per-delegator sections look at one delegator per step, in rotation, so that a
	// step stays affordable; every delegator is still looked at every few steps
	if len(s.UndelQueue)+len(s.Dels) > 120 && len(dels) > 1 {
		i := m.step % len(dels)
		dels = dels[i : i+1]
		r.Probe("c20_large_state_rotating_delegator")
	}
	for _, d := range dels {
		da := d.Addr.String()
		ents := byDel[da]
		// ---- by delegator
		r.Eval("C20.a")
		var want []string
		missingAsset := false
		for _, e := range ents {
			want = append(want, unbKey(e.val, e.denom, e.amt, e.t))
			if _, ok := s.Assets[e.denom]; !ok {
				missingAsset = true
			}
		}
		sort.Strings(want)
		resp, err := r.QS.AllianceUnbondingsByDelegator(ctx, &alliancetypes.QueryAllianceUnbondingsByDelegatorRequest{DelegatorAddr: da})
		if err != nil {
			r.Violate("C20.a", "unbondings-by-delegator-error", err.Error())
			return
		}
		if a, b := diffMultiset(renderUnb(resp.Unbondings), want); len(a)+len(b) > 0 {
			cls := "unbondings-by-delegator"
			if missingAsset && len(a) == 0 {
				cls = "unbondings-by-delegator:asset-deleted"
			}
			r.Violate("C20.a", cls, fmt.Sprintf("delegator %s: query-only %v reference-only %v", short(da), trimList(a), trimList(b)))
			if r.failed() {
				return
			}
		}
		// ---- by denom and delegator, and by (denom, delegator, validator) for every validator/denom pair
		for i := range r.W.Cfg.Assets {
			denom := AllianceDenoms[i]
			var wantD []string
			for _, e := range ents {
				if e.denom == denom {
					wantD = append(wantD, unbKey(e.val, e.denom, e.amt, e.t))
				}
			}
			sort.Strings(wantD)
			r2, err := r.QS.AllianceUnbondingsByDenomAndDelegator(ctx, &alliancetypes.QueryAllianceUnbondingsByDenomAndDelegatorRequest{Denom: denom, DelegatorAddr: da})
			if err != nil {
				r.Violate("C20.a", "unbondings-by-denom-error", err.Error())
				return
			}
			if a, b := diffMultiset(renderUnb(r2.Unbondings), wantD); len(a)+len(b) > 0 {
				r.Violate("C20.a", "unbondings-by-denom-and-delegator", fmt.Sprintf("delegator %s denom %s: query-only %v reference-only %v", short(da), denom, trimList(a), trimList(b)))
				return
			}
			for _, v := range s.StValOrder {
				var wantV []string
				for _, e := range ents {
					if e.denom == denom && e.val == v {
						wantV = append(wantV, unbKey(e.val, e.denom, e.amt, e.t))
					}
				}
				if len(wantV) == 0 && len(ents) == 0 {
					continue
				}
				sort.Strings(wantV)
				r3, err := r.QS.AllianceUnbondings(ctx, &alliancetypes.QueryAllianceUnbondingsRequest{Denom: denom, DelegatorAddr: da, ValidatorAddr: v})
				if err != nil {
					r.Violate("C20.a", "unbondings-error", err.Error())
					return
				}
				if a, b := diffMultiset(renderUnb(r3.Unbondings), wantV); len(a)+len(b) > 0 {
					r.Violate("C20.a", "unbondings-by-validator", fmt.Sprintf("delegator %s denom %s validator %s: query-only %v reference-only %v", short(da), denom, short(v), trimList(a), trimList(b)))
					return
				}
			}
		}
		// ---- redelegations
		r.Eval("C20.b")
		var wantR []string
		for _, x := range s.Redels {
			if x.Del == da {
				wantR = append(wantR, fmt.Sprintf("%s|%s|%s|%s|%d", x.Rec.SrcValidatorAddress, x.Dst, x.Denom, x.Rec.Balance.Amount, x.Completion.UnixNano()))
			}
		}
		sort.Strings(wantR)
		for _, lim := range []uint64{0, 1, 2} {
			got, err := m.redelsByDelegator(r, ctx, da, lim)
			if err != nil {
				r.Violate("C20.b", "redelegations-error", err.Error())
				return
			}
			if a, b := diffMultiset(got, wantR); len(a)+len(b) > 0 {
				r.Violate("C20.b", fmt.Sprintf("redelegations-by-delegator:limit%d", lim), fmt.Sprintf("delegator %s: query-only %v reference-only %v", short(da), trimList(a), trimList(b)))
				return
			}
		}
		// the ledger knows the true per-source entries; a merged record hides one of them
		// (entries with the same source, destination, denom and completion instant are one entry with the summed amount)
		sums := map[string]sdkmath.Int{}
		for _, e := range m.L.PendingR() {
			if e.Del == da {
				k := fmt.Sprintf("%s|%s|%s|%d", e.Src, e.Dst, e.Denom, e.Completion.UnixNano())
				cur, ok := sums[k]
				if !ok {
					cur = sdkmath.ZeroInt()
				}
				sums[k] = cur.Add(e.Amount)
			}
		}
		var trueR []string
		for k, v := range sums {
			p := strings.Split(k, "|")
			trueR = append(trueR, fmt.Sprintf("%s|%s|%s|%s|%s", p[0], p[1], p[2], v, p[3]))
		}
		sort.Strings(trueR)
		if a, b := diffMultiset(wantR, trueR); len(a)+len(b) > 0 {
			cls := "redelegations-vs-history"
			if m.mergedOnly(da) {
				cls = "redel-merged-sources"
			}
			r.Violate("C20.b", cls, fmt.Sprintf("delegator %s: recorded %v, actually redelegated %v", short(da), trimList(a), trimList(b)))
			if r.failed() {
				return
			}
		}
		for i := range r.W.Cfg.Assets {
			denom := AllianceDenoms[i]
			var wantRD []string
			for _, x := range s.Redels {
				if x.Del == da && x.Denom == denom {
					wantRD = append(wantRD, fmt.Sprintf("%s|%s|%s|%s|%d", x.Rec.SrcValidatorAddress, x.Dst, x.Denom, x.Rec.Balance.Amount, x.Completion.UnixNano()))
				}
			}
			sort.Strings(wantRD)
			rr, err := r.QS.AllianceRedelegations(ctx, &alliancetypes.QueryAllianceRedelegationsRequest{Denom: denom, DelegatorAddr: da})
			if err != nil {
				r.Violate("C20.b", "redelegations-error", err.Error())
				return
			}
			var got []string
			for _, e := range rr.Redelegations {
				got = append(got, fmt.Sprintf("%s|%s|%s|%s|%d", e.SrcValidatorAddress, e.DstValidatorAddress, e.Balance.Denom, e.Balance.Amount, e.CompletionTime.UnixNano()))
			}
			sort.Strings(got)
			if a, b := diffMultiset(got, wantRD); len(a)+len(b) > 0 {
				r.Violate("C20.b", "redelegations-by-denom", fmt.Sprintf("delegator %s denom %s: query-only %v reference-only %v", short(da), denom, trimList(a), trimList(b)))
				return
			}
		}
	}
	// ---- delegations: every record once, paginated union = unpaginated
	r.Eval("C20.c")
	var wantAll []string
	for _, pk := range s.DelOrder {
		wantAll = append(wantAll, pk.Del+"|"+pk.Val+"|"+pk.Denom)
	}
	sort.Strings(wantAll)
	for _, lim := range []uint64{0, 1, 3} {
		got, balances, err := m.allDelegations(r, ctx, lim)
		if err != nil {
			// a delegation whose validator or asset is gone makes the listing fail
			r.Violate("C20.c", "all-delegations-error:"+m.listingErrClass(s, err.Error()), err.Error())
			if r.failed() {
				return
			}
			break
		}
		if a, b := diffMultiset(got, wantAll); len(a)+len(b) > 0 {
			r.Violate("C20.c", fmt.Sprintf("all-delegations:limit%d", lim), fmt.Sprintf("query-only %v reference-only %v", trimList(a), trimList(b)))
			return
		}
		// reported balance = floor(exact value + rounder), within the fixed-point tolerance - on every page size
		for _, pk := range s.DelOrder {
			if b, ok := balances[pk.Del+"|"+pk.Val+"|"+pk.Denom]; ok && !m.balanceOK(r, s, pk, b, fmt.Sprintf("all-delegations listing (page size %d)", lim)) {
				return
			}
		}
	}
	if len(s.Dels) > 0 {
		r.Nontrivial()
	}
	// per-delegator and per-(delegator, validator) listings, single-record query, bindings
	for _, d := range dels {
		da := d.Addr.String()
		var wantD []string
		for _, pk := range s.DelOrder {
			if pk.Del == da {
				wantD = append(wantD, pk.Del+"|"+pk.Val+"|"+pk.Denom)
			}
		}
		if len(wantD) == 0 {
			continue
		}
		sort.Strings(wantD)
		listingFailed := false
		for _, pat := range [][]uint64{{0}, {1}, {2}, {1, 2}} {
			var got []string
			var key []byte
			for i := 0; i < 100; i++ {
				req := &alliancetypes.QueryAlliancesDelegationsRequest{DelegatorAddr: da}
				if lim := pat[i%len(pat)]; lim > 0 || key != nil {
					req.Pagination = &query.PageRequest{Limit: lim, Key: key}
				}
				resp, err := r.QS.AlliancesDelegation(ctx, req)
				if err != nil {
					r.Violate("C20.c", "delegations-by-delegator-error:"+m.listingErrClass(s, err.Error()), err.Error())
					if r.failed() {
						return
					}
					listingFailed = true
					break
				}
				for _, x := range resp.Delegations {
					got = append(got, x.Delegation.DelegatorAddress+"|"+x.Delegation.ValidatorAddress+"|"+x.Delegation.Denom)
					if !m.balanceOK(r, s, PosKey{Del: x.Delegation.DelegatorAddress, Val: x.Delegation.ValidatorAddress, Denom: x.Delegation.Denom}, x.Balance.Amount, fmt.Sprintf("by-delegator listing (page sizes %v)", pat)) {
						return
					}
				}
				if resp.Pagination == nil || len(resp.Pagination.NextKey) == 0 {
					break
				}
				key = resp.Pagination.NextKey
			}
			if listingFailed {
				break
			}
			sort.Strings(got)
			if a, b := diffMultiset(got, wantD); len(a)+len(b) > 0 {
				r.Violate("C20.c", "delegations-by-delegator", fmt.Sprintf("page sizes %v: query-only %v reference-only %v", pat, trimList(a), trimList(b)))
				return
			}
		}
		if listingFailed {
			continue
		}
		// per (delegator, validator), paginated with limit 1 and unpaginated; and the single-record query
		for _, v := range s.StValOrder {
			var wantV []string
			for _, pk := range s.DelOrder {
				if pk.Del == da && pk.Val == v {
					wantV = append(wantV, pk.Del+"|"+pk.Val+"|"+pk.Denom)
				}
			}
			sort.Strings(wantV)
			for _, lim := range []uint64{0, 1} {
				var gotV []string
				var key []byte
				failed := false
				for i := 0; i < 100; i++ {
					req := &alliancetypes.QueryAlliancesDelegationByValidatorRequest{DelegatorAddr: da, ValidatorAddr: v}
					if lim > 0 || key != nil {
						req.Pagination = &query.PageRequest{Limit: lim, Key: key}
					}
					rv, err := r.QS.AlliancesDelegationByValidator(ctx, req)
					if err != nil {
						failed = true
						if len(wantV) > 0 {
							r.Violate("C20.c", "delegations-by-validator-error:"+m.listingErrClass(s, err.Error()), err.Error())
							if r.failed() {
								return
							}
						}
						break
					}
					for _, x := range rv.Delegations {
						gotV = append(gotV, x.Delegation.DelegatorAddress+"|"+x.Delegation.ValidatorAddress+"|"+x.Delegation.Denom)
						if !m.balanceOK(r, s, PosKey{Del: x.Delegation.DelegatorAddress, Val: x.Delegation.ValidatorAddress, Denom: x.Delegation.Denom}, x.Balance.Amount, "by-delegator-and-validator listing") {
							return
						}
					}
					if rv.Pagination == nil || len(rv.Pagination.NextKey) == 0 {
						break
					}
					key = rv.Pagination.NextKey
				}
				if failed {
					break
				}
				sort.Strings(gotV)
				if a, b := diffMultiset(gotV, wantV); len(a)+len(b) > 0 {
					r.Violate("C20.c", fmt.Sprintf("delegations-by-validator:limit%d", lim), fmt.Sprintf("delegator %s validator %s: query-only %v reference-only %v", short(da), short(v), trimList(a), trimList(b)))
					return
				}
			}
		}
	}
	// (d) the reported balance is undelegatable, balance+1 is not: one position per step, rotating
	if n := len(s.DelOrder); n > 0 {
		pk := s.DelOrder[m.step%n]
		m.probeBalance(r, s, pk)
		if r.failed() {
			return
		}
		m.probeBindings(r, s, pk)
	}
}

func (m *monC20) mergedOnly(del string) bool {
	seen := map[string]string{}
	for _, e := range m.L.PendingR() {
		if e.Del != del {
			continue
		}
		k := fmt.Sprintf("%s|%s|%d", e.Dst, e.Denom, e.Completion.UnixNano())
		if src, ok := seen[k]; ok && src != e.Src {
			return true
		}
		seen[k] = e.Src
	}
	// two entries from the same source merge as well (amounts are summed, which is a faithful view)
	return false
}

// balanceOK: a balance reported for a position by any query equals floor(exact value + rounder) within the
// fixed-point tolerance of that position.
func (m *monC20) balanceOK(r *Runner, s *Snap, pk PosKey, bal sdkmath.Int, where string) bool {
	if _, ok := s.Dels[pk]; !ok {
		return true
	}
	if a, ok := s.Assets[pk.Denom]; !ok || a.TotalValidatorShares.IsZero() {
		return true
	}
	exact := s.PosValue(pk)
	tol := s.tolFor(pk.Val, pk.Denom, exact)
	if within(ratInt(bal), exact, tol) {
		return true
	}
	r.Violate("C20.c", "reported-balance", fmt.Sprintf("%s in the %s: reported balance %s, exact value %s (tol %s)", pk, where, bal, rstr(exact), rstr(tol)))
	return false
}

func (m *monC20) redelsByDelegator(r *Runner, ctx sdk.Context, del string, limit uint64) ([]string, error) {
	var out []string
	var key []byte
	for i := 0; i < 1000; i++ {
		req := &alliancetypes.QueryAllianceRedelegationsByDelegatorRequest{DelegatorAddr: del}
		if limit > 0 || key != nil {
			req.Pagination = &query.PageRequest{Limit: limit, Key: key}
		}
		resp, err := r.QS.AllianceRedelegationsByDelegator(ctx, req)
		if err != nil {
			return nil, err
		}
		for _, e := range resp.Redelegations {
			out = append(out, fmt.Sprintf("%s|%s|%s|%s|%d", e.SrcValidatorAddress, e.DstValidatorAddress, e.Balance.Denom, e.Balance.Amount, e.CompletionTime.UnixNano()))
		}
		if resp.Pagination == nil || len(resp.Pagination.NextKey) == 0 {
			break
		}
		key = resp.Pagination.NextKey
	}
	sort.Strings(out)
	return out, nil
}

func (m *monC20) allDelegations(r *Runner, ctx sdk.Context, limit uint64) ([]string, map[string]sdkmath.Int, error) {
	var out []string
	bal := map[string]sdkmath.Int{}
	var key []byte
	for i := 0; i < 1000; i++ {
		req := &alliancetypes.QueryAllAlliancesDelegationsRequest{}
		if limit > 0 || key != nil {
			req.Pagination = &query.PageRequest{Limit: limit, Key: key}
		}
		resp, err := r.QS.AllAlliancesDelegations(ctx, req)
		if err != nil {
			return nil, nil, err
		}
		for _, x := range resp.Delegations {
			k := x.Delegation.DelegatorAddress + "|" + x.Delegation.ValidatorAddress + "|" + x.Delegation.Denom
			out = append(out, k)
			bal[k] = x.Balance.Amount
		}
		if resp.Pagination == nil || len(resp.Pagination.NextKey) == 0 {
			break
		}
		key = resp.Pagination.NextKey
	}
	sort.Strings(out)
	return out, bal, nil
}

func (m *monC20) tryUndelegate(r *Runner, pk PosKey, amt sdkmath.Int) (ok bool, errs string) {
	ctx := r.Branch()
	defer func() {
		if rec := recover(); rec != nil {
			ok, errs = false, fmt.Sprintf("panic: %v", rec)
		}
	}()
	_, err := r.MS.Undelegate(ctx, &alliancetypes.MsgUndelegate{DelegatorAddress: pk.Del, ValidatorAddress: pk.Val, Amount: sdk.Coin{Denom: pk.Denom, Amount: amt}})
	if err != nil {
		return false, err.Error()
	}
	return true, ""
}

func (m *monC20) probeBalance(r *Runner, s *Snap, pk PosKey) {
	del, _ := sdk.AccAddressFromBech32(pk.Del)
	val, _ := sdk.ValAddressFromBech32(pk.Val)
	bal, err := r.ReportedBalance(r.Branch(), del, val, pk.Denom)
	if err != nil {
		return
	}
	r.Eval("C20.d")
	if bal.IsPositive() {
		if ok, errs := m.tryUndelegate(r, pk, bal); !ok {
			cls := "balance-not-undelegatable:" + classifyErr(errs)
			if strings.Contains(errs, "insufficient funds") && strings.Contains(errs, "spendable balance") && s.BalOf(r.W.ModuleAddr, pk.Denom).GTE(bal) {
				// the failing send is the implicit reward claim (custody covers the amount): open finding C12
				cls = "balance-not-undelegatable:reward-pool-shortfall"
			}
			if r.strandedPos(s, pk.Val, pk.Denom) {
				cls = "balance-not-undelegatable:validator-removed-by-staking-and-created-again"
			}
			r.Violate("C20.d", cls, fmt.Sprintf("%s: reported balance %s cannot be undelegated: %s", pk, bal, errs))
			if r.failed() {
				return
			}
		}
	}
	if ok, _ := m.tryUndelegate(r, pk, bal.AddRaw(1)); ok {
		r.Probe("c20_balance_plus_one_accepted")
		// the module itself rounds 0.01 up: balance+1 succeeding means the reported balance understates what can be withdrawn
		exact := s.PosValue(pk)
		if ratInt(bal.AddRaw(1)).Cmp(radd(exact, s.tolFor(pk.Val, pk.Denom, exact))) > 0 {
			r.Violate("C20.d", "balance-plus-one-undelegatable", fmt.Sprintf("%s: reported balance %s but %s can be undelegated (exact value %s)", pk, bal, bal.AddRaw(1), rstr(exact)))
		}
	}
}

func (m *monC20) probeBindings(r *Runner, s *Snap, pk PosKey) {
	r.Eval("C20.e")
	k := r.W.App.AllianceKeeper
	qp := bindings.NewAllianceQueryPlugin(&k)
	del, _ := sdk.AccAddressFromBech32(pk.Del)
	val, _ := sdk.ValAddressFromBech32(pk.Val)
	// delegation
	raw, err := qp.GetDelegation(r.Branch(), pk.Denom, pk.Del, pk.Val)
	bal, gerr := r.ReportedBalance(r.Branch(), del, val, pk.Denom)
	if (err == nil) != (gerr == nil) {
		r.Violate("C20.e", "binding-delegation-error-mismatch", fmt.Sprintf("binding err=%v grpc err=%v", err, gerr))
		return
	}
	if err == nil {
		var dr bindingtypes.DelegationResponse
		_ = json.Unmarshal(raw, &dr)
		if dr.Amount != bal.String() || dr.Delegator != pk.Del || dr.Validator != pk.Val || dr.Denom != pk.Denom {
			r.Violate("C20.e", "binding-delegation", fmt.Sprintf("binding %+v, grpc balance %s", dr, bal))
			return
		}
	}
	// rewards
	rawR, errB := qp.GetDelegationRewards(r.Branch(), pk.Denom, pk.Del, pk.Val)
	gr, errG := r.QS.AllianceDelegationRewards(r.Branch(), &alliancetypes.QueryAllianceDelegationRewardsRequest{DelegatorAddr: pk.Del, ValidatorAddr: pk.Val, Denom: pk.Denom})
	if (errB == nil) != (errG == nil) {
		r.Violate("C20.e", "binding-rewards-error-mismatch", fmt.Sprintf("binding err=%v grpc err=%v", errB, errG))
		return
	}
	if errB == nil {
		var rr bindingtypes.DelegationRewardsResponse
		_ = json.Unmarshal(rawR, &rr)
		if !sdk.Coins(rr.Rewards).Equal(sdk.Coins(gr.Rewards)) {
			r.Violate("C20.e", "binding-rewards", fmt.Sprintf("binding %s grpc %s", rr.Rewards, gr.Rewards))
			return
		}
	}
	// asset
	rawA, err := qp.GetAlliance(r.Branch(), pk.Denom)
	if err != nil {
		return
	}
	var ar bindingtypes.AllianceResponse
	_ = json.Unmarshal(rawA, &ar)
	a := s.Assets[pk.Denom]
	if ar.Denom != a.Denom || ar.RewardWeight != a.RewardWeight.String() || ar.TakeRate != a.TakeRate.String() || ar.TotalTokens != a.TotalTokens.String() ||
		ar.TotalValidatorShares != a.TotalValidatorShares.String() || ar.RewardChangeRate != a.RewardChangeRate.String() || ar.IsInitialized != a.IsInitialized ||
		ar.RewardWeightRange.Min != a.RewardWeightRange.Min.String() || ar.RewardWeightRange.Max != a.RewardWeightRange.Max.String() {
		r.Violate("C20.e", "binding-alliance-fields", fmt.Sprintf("binding %+v vs asset %+v", ar, a))
		return
	}
	// time fields must denote the same instants
	if ar.RewardStartTime != uint64(a.RewardStartTime.UnixNano()) || ar.LastRewardChangeTime != uint64(a.LastRewardChangeTime.UnixNano()) {
		r.Violate("C20.e", "binding-alliance-time-fields", fmt.Sprintf("binding reports reward_start_time=%d last_reward_change_time=%d, the asset's instants are %d / %d (unix ns)", ar.RewardStartTime, ar.LastRewardChangeTime, a.RewardStartTime.UnixNano(), a.LastRewardChangeTime.UnixNano()))
	}
}

// listingErrClass: a delegation record whose asset has been deleted (possible once rounding lets the
// staked total reach zero while a dust delegation remains) makes every listing that reaches it fail.
func (m *monC20) listingErrClass(s *Snap, e string) string {
	if strings.Contains(e, "not whitelisted") {
		for _, pk := range s.DelOrder {
			if _, ok := s.Assets[pk.Denom]; !ok {
				return "delegation-of-deleted-asset"
			}
		}
	}
	// a delegation record whose validator x/staking has removed (open finding: the records outlive the validator)
	if strings.Contains(e, "does not exist") || strings.Contains(e, "not found") {
		for _, pk := range s.DelOrder {
			if _, ok := s.StVals[pk.Val]; !ok {
				return "delegation-on-validator-removed-by-staking"
			}
		}
	}
	return classifyErr(e)
}
