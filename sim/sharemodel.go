package main

import (
	"bytes"
	"fmt"
	"math/big"
	"os"
	"sort"

	sdkmath "cosmossdk.io/math"
	sdk "github.com/cosmos/cosmos-sdk/types"
)

// ShareState is an exact-rational model of the module's share accounting for slashing.
type ShareState struct {
	T  map[string]*big.Rat            // denom -> staked total
	S  map[string]*big.Rat            // denom -> total validator shares
	VS map[string]map[string]*big.Rat // val -> denom -> validator shares
	D  map[string]map[string]*big.Rat // val -> denom -> total delegator shares
	P  map[PosKey]*big.Rat            // position -> delegator shares
	// RelErr: per denom, the relative uncertainty that redelegation cuts put on every token value of the asset. The
	// module converts the slashed tokens to delegation shares through round18(D/K); when one delegation share is worth
	// 10^13 tokens that quotient keeps five digits, the cut (and with it the validator shares that leave the asset and
	// the redistribution factor) is only that precise.
	RelErr map[string]*big.Rat
}

func getRR(m map[string]map[string]*big.Rat, a, b string) *big.Rat {
	if mm, ok := m[a]; ok {
		if v, ok := mm[b]; ok {
			return v
		}
	}
	return new(big.Rat)
}

func setRR(m map[string]map[string]*big.Rat, a, b string, v *big.Rat) {
	if _, ok := m[a]; !ok {
		m[a] = map[string]*big.Rat{}
	}
	m[a][b] = v
}

func ShareStateOf(s *Snap) *ShareState {
	st := &ShareState{T: map[string]*big.Rat{}, S: map[string]*big.Rat{}, VS: map[string]map[string]*big.Rat{}, D: map[string]map[string]*big.Rat{}, P: map[PosKey]*big.Rat{}}
	for d, a := range s.Assets {
		st.T[d] = ratInt(a.TotalTokens)
		st.S[d] = ratDec(a.TotalValidatorShares)
	}
	for v, vi := range s.ValInfos {
		for _, c := range vi.ValidatorShares {
			setRR(st.VS, v, c.Denom, ratDec(c.Amount))
		}
		for _, c := range vi.TotalDelegatorShares {
			setRR(st.D, v, c.Denom, ratDec(c.Amount))
		}
	}
	for pk, d := range s.Dels {
		st.P[pk] = ratDec(d.Shares)
	}
	return st
}

// ValTokens = vs/S*T
func (st *ShareState) ValTokens(val, denom string) *big.Rat {
	S, ok := st.S[denom]
	if !ok || S.Sign() == 0 {
		return new(big.Rat)
	}
	vs := getRR(st.VS, val, denom)
	if vs.Sign() == 0 {
		return new(big.Rat)
	}
	return rmul(rquo(vs, S), st.T[denom])
}

func (st *ShareState) PosValue(p PosKey) *big.Rat {
	s, ok := st.P[p]
	if !ok {
		return new(big.Rat)
	}
	D := getRR(st.D, p.Val, p.Denom)
	if D.Sign() == 0 {
		return new(big.Rat)
	}
	return rmul(rquo(s, D), st.ValTokens(p.Val, p.Denom))
}

var ratCent = big.NewRat(1, 100)

// SlashBonded applies the validator-share cut of a slash of val by f (all denoms).
func (st *ShareState) SlashBonded(val string, f *big.Rat) {
	for denom, vs := range st.VS[val] {
		cut := rmul(vs, f)
		st.VS[val][denom] = rsub(vs, cut)
		if S, ok := st.S[denom]; ok {
			st.S[denom] = rsub(S, cut)
		}
	}
}

type redelGroup struct {
	key     []byte
	Del     string
	Denom   string
	Dst     string
	Balance sdkmath.Int // module-visible record balance (all ledger entries sharing the record key)
	FromV   sdkmath.Int // what was actually redelegated out of the slashed validator
	Merged  bool        // the record also contains amounts redelegated from other validators
}

func lp(b []byte) []byte { return append([]byte{byte(len(b))}, b...) }

// groupsFor returns, in the module's iteration order, the redelegation records reachable from
// the per-source index of validator val that are still pending at time now.
func groupsFor(l *Ledger, val string, now timeT) []*redelGroup {
	byKey := map[string]*redelGroup{}
	var order []*redelGroup
	for _, e := range l.R {
		if e.Done || e.Src != val || e.Completion.Before(now) {
			continue
		}
		dst, _ := sdk.ValAddressFromBech32(e.Dst)
		del, _ := sdk.AccAddressFromBech32(e.Del)
		var k []byte
		k = append(k, lp(sdk.FormatTimeBytes(e.Completion))...)
		k = append(k, lp(append([]byte(e.Denom), 0))...)
		k = append(k, lp(dst)...)
		k = append(k, lp(del)...)
		g, ok := byKey[string(k)]
		if !ok {
			g = &redelGroup{key: k, Del: e.Del, Denom: e.Denom, Dst: e.Dst, Balance: sdkmath.ZeroInt(), FromV: sdkmath.ZeroInt()}
			byKey[string(k)] = g
			order = append(order, g)
		}
	}
	// record balance: every pending ledger entry with the same (del, denom, dst, completion), any source
	for _, g := range order {
		for _, e := range l.R {
			if e.Done || e.Del != g.Del || e.Denom != g.Denom || e.Dst != g.Dst {
				continue
			}
			dst, _ := sdk.ValAddressFromBech32(e.Dst)
			del, _ := sdk.AccAddressFromBech32(e.Del)
			var k []byte
			k = append(k, lp(sdk.FormatTimeBytes(e.Completion))...)
			k = append(k, lp(append([]byte(e.Denom), 0))...)
			k = append(k, lp(dst)...)
			k = append(k, lp(del)...)
			if !bytes.Equal(k, g.key) {
				continue
			}
			g.Balance = g.Balance.Add(e.Amount)
			if e.Src == val {
				g.FromV = g.FromV.Add(e.Amount)
			} else {
				g.Merged = true
			}
		}
	}
	sort.Slice(order, func(i, j int) bool { return bytes.Compare(order[i].key, order[j].key) < 0 })
	return order
}

// SlashRedelegationsAsImplemented removes delegator shares from destination positions the way the
// module does (known-defect model Q'): floor(f*recordBalance) tokens converted at the destination
// validator's current rate, capped at the position. Returns the positions touched.
func (st *ShareState) SlashRedelegationsAsImplemented(groups []*redelGroup, f *big.Rat) []PosKey {
	touched, _ := st.SlashRedelegationsAsImplementedAmb(groups, f)
	return touched
}

// ...Amb additionally reports the (validator|denom) pairs where the whole-position-or-not decision
// falls inside the 18-digit rounding error of the module's tokens-to-shares quotient, so that both
// outcomes are legitimate for the as-implemented model.
func (st *ShareState) SlashRedelegationsAsImplementedAmb(groups []*redelGroup, f *big.Rat) ([]PosKey, map[string]bool) {
	amb := map[string]bool{}
	var touched []PosKey
	for _, g := range groups {
		p := PosKey{Del: g.Del, Val: g.Dst, Denom: g.Denom}
		s, ok := st.P[p]
		if !ok {
			continue
		}
		if _, ok := st.T[g.Denom]; !ok {
			continue
		}
		K := st.ValTokens(g.Dst, g.Denom)
		if K.Sign() == 0 {
			continue
		}
		t := new(big.Rat).SetInt(rfloor(rmul(f, ratInt(g.Balance))))
		D := getRR(st.D, g.Dst, g.Denom)
		var x *big.Rat
		if D.Sign() == 0 {
			x = t
		} else {
			x = rmul(rquo(D, K), t)
		}
		diff := rabs(rsub(s, x))
		// the module computes x = round18(D/K') x t with K' = round18(vs/S) x T: the quotient D/K' is off by up to
		// 10^-18 absolute (x t), and K' carries the 10^-18 error of vs/S amplified by T, i.e. a relative error of
		// 10^-18 x T/K that x inherits. (Found by the thorough tier: with 100 shares per token after a 0.99 take
		// rate the bound t x 4e-18 was two orders of magnitude too small and the model decided "whole position"
		// where the module, within its rounding error, did not.)
		errX := rmul(radd(t, rmul(x, radd(big.NewRat(1, 1), rquo(st.T[g.Denom], K)))), big.NewRat(4, 1_000_000_000_000_000_000))
		if rabs(rsub(diff, ratCent)).Cmp(errX) <= 0 || (diff.Cmp(ratCent) >= 0 && diff.Cmp(radd(ratCent, errX)) <= 0) || rabs(rsub(x, s)).Cmp(errX) <= 0 && diff.Cmp(ratCent) >= 0 {
			amb[g.Dst+"|"+g.Denom] = true
		}
		// the slash covers everything the position still holds (reported balance floor(value + 0.01)): the whole
		// position goes, without converting tokens to shares
		whole := false
		if D.Sign() > 0 {
			v := rmul(K, rquo(s, D))
			vr := radd(v, ratCent)
			errV := rmul(radd(K, rmul(v, radd(big.NewRat(1, 1), rquo(st.T[g.Denom], K)))), big.NewRat(4, 1_000_000_000_000_000_000))
			if t.Cmp(new(big.Rat).SetInt(rfloor(vr))) >= 0 {
				whole = true
			}
			// the decision flips where value + 0.01 crosses t or t + 1: within the module's rounding error of either
			// boundary both outcomes are legitimate
			for _, b := range []*big.Rat{t, radd(t, big.NewRat(1, 1))} {
				if rabs(rsub(vr, b)).Cmp(errV) <= 0 {
					amb[g.Dst+"|"+g.Denom] = true
				}
			}
		}
		switch {
		case whole:
			x = s
		// rounding margin: below 0.01 share and (D > 0) also worth less than 0.01 token
		case diff.Cmp(ratCent) < 0 && (D.Sign() == 0 || rmul(rquo(diff, D), K).Cmp(ratCent) < 0):
			x = s
		case s.Cmp(new(big.Rat).SetInt(rfloor(x))) < 0:
			x = s
		case x.Cmp(s) > 0:
			x = s
		}
		if os.Getenv("VERIF_C07_DEBUG") != "" {
			fmt.Fprintf(os.Stderr, "C07DEBUG redel-slash %s: balance=%s f=%s t=%s K=%s D=%s s=%s x=%s diff=%s\n", p, g.Balance, rstr(f), rstr(t), rstr(K), rstr(D), rstr(s), rstr(x), rstr(diff))
		}
		// the same fraction x/D of the destination validator's validator shares leaves it and the asset's total
		if D.Sign() > 0 {
			held := getRR(st.VS, g.Dst, g.Denom)
			vs := rmul(held, rquo(x, D))
			if vs.Cmp(held) > 0 {
				vs = held
			}
			if vs.Sign() > 0 {
				setRR(st.VS, g.Dst, g.Denom, rsub(held, vs))
				st.S[g.Denom] = rsub(st.S[g.Denom], vs)
				if st.S[g.Denom].Sign() > 0 {
					if st.RelErr == nil {
						st.RelErr = map[string]*big.Rat{}
					}
					// the cut itself is held x round18(x/D): off by up to held x 10^-18 validator shares, which matters
					// when (almost) everything else of the asset's shares is slashed away in the same step
					e := rquo(rmul(held, big.NewRat(4, 1_000_000_000_000_000_000)), st.S[g.Denom])
					if x.Cmp(s) < 0 {
						e = radd(e, rquo(rmul(held, rquo(errX, D)), st.S[g.Denom]))
					}
					st.RelErr[g.Denom] = radd(getR(st.RelErr, g.Denom), e)
				}
			}
		}
		ns := rsub(s, x)
		setRR(st.D, g.Dst, g.Denom, rsub(D, x))
		if ns.Sign() == 0 {
			delete(st.P, p)
		} else {
			st.P[p] = ns
		}
		touched = append(touched, p)
	}
	return touched, amb
}

// tolOf is the tolerance the properties state: one base unit plus the relative error of
// 18-digit fixed-point arithmetic (taken as 10^-15 of the magnitude involved).
func tolOf(x *big.Rat) *big.Rat {
	t := rmul(rabs(x), big.NewRat(1, 1_000_000_000_000_000))
	return radd(t, big.NewRat(1, 1))
}

func within(a, b, tol *big.Rat) bool { return rabs(rsub(a, b)).Cmp(tol) <= 0 }

func maxRat(a, b *big.Rat) *big.Rat {
	if a.Cmp(b) >= 0 {
		return a
	}
	return b
}
func minRat(a, b *big.Rat) *big.Rat {
	if a.Cmp(b) <= 0 {
		return a
	}
	return b
}

var eps16 = big.NewRat(16, 1_000_000_000_000_000_000) // 16 ulp of 18-digit fixed point

// tolFor is the rounding tolerance for token values on validator val in asset denom when an
// operation moves t tokens there: one base unit (two, for floor + rounder) plus a forward error
// bound of the 18-digit fixed-point conversions involved. Every Quo rounds at 10^-18 absolute and
// the result is then multiplied by T (validator tokens from validator shares), by K (position
// tokens from delegator shares), or by t and the inverse ratios K/D, T/S, T/K (tokens to shares
// and back). The bound is derived from the state, not from implementation constants.
func (s *Snap) tolFor(val, denom string, t *big.Rat) *big.Rat {
	a, ok := s.Assets[denom]
	if !ok {
		return big.NewRat(2, 1)
	}
	T := ratInt(a.TotalTokens)
	S := ratDec(a.TotalValidatorShares)
	K := s.ValTokens(val, denom)
	D := new(big.Rat)
	if vi, ok := s.ValInfos[val]; ok {
		D = ratDec(decCoinsAmount(vi.TotalDelegatorShares, denom))
	}
	rho := big.NewRat(1, 1)
	if D.Sign() > 0 {
		rho = radd(rho, rquo(K, D))
	}
	if S.Sign() > 0 {
		rho = radd(rho, rquo(T, S))
	}
	if K.Sign() > 0 {
		rho = radd(rho, rquo(T, K))
	}
	e := radd(radd(T, K), rmul(rho, rabs(t)))
	return radd(big.NewRat(2, 1), rmul(eps16, e))
}

// tolMax takes the larger of the pre- and post-state tolerances.
func tolMax(pre, post *Snap, val, denom string, t *big.Rat) *big.Rat {
	return maxRat(pre.tolFor(val, denom, t), post.tolFor(val, denom, t))
}
