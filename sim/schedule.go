package main

import (
	"encoding/json"
	"os"
)

// ---------------------------------------------------------------------------
// World configuration (drawn per run; stored in the replay file)
// ---------------------------------------------------------------------------

type ValCfg struct {
	SelfBond   string `json:"self_bond"`  // base units of the bond denom
	Commission string `json:"commission"` // decimal string
}

type AssetCfg struct {
	Genesis       bool   `json:"genesis"` // whitelisted at genesis (otherwise only through a gov_create op)
	Unit          string `json:"unit"`    // typical magnitude of one stake operation, base units
	Weight        string `json:"weight"`
	WeightMin     string `json:"weight_min"`
	WeightMax     string `json:"weight_max"`
	TakeRate      string `json:"take_rate"`
	ChangeRate    string `json:"change_rate"`
	ChangeIntvlNs int64  `json:"change_interval_ns"`
	StartDelayNs  int64  `json:"start_delay_ns"` // reward start time = genesis time + delay (genesis assets)
}

type Config struct {
	Validators []ValCfg `json:"validators"`
	Delegators int      `json:"delegators"`
	// delegator 0 gets a 32-byte address (module/contract/interchain accounts) instead of a 20-byte key address
	LongAddrDelegator bool       `json:"long_addr_delegator,omitempty"`
	Natives           int        `json:"natives"`
	Assets            []AssetCfg `json:"assets"`

	// alliance params
	RewardDelayNs   int64 `json:"reward_delay_ns"`
	TakeRateIntvlNs int64 `json:"take_rate_interval_ns"`
	// staking / slashing params
	UnbondingTimeNs int64  `json:"unbonding_time_ns"`
	MaxValidators   uint32 `json:"max_validators"`
	SignedWindow    int64  `json:"signed_window"`
	MinSigned       string `json:"min_signed"`
	SlashDowntime   string `json:"slash_downtime"`
	SlashDoubleSign string `json:"slash_double_sign"`
	JailNs          int64  `json:"jail_ns"`
	// mint
	Inflation     string `json:"inflation"` // "0" disables minting
	BlocksPerYear uint64 `json:"blocks_per_year"`
	// distribution
	CommunityTax string `json:"community_tax"`
}

// ---------------------------------------------------------------------------
// Schedule
// ---------------------------------------------------------------------------

// Amt is a symbolic amount so that an op stays meaningful when earlier steps are removed.
type Amt struct {
	Abs     string `json:"abs,omitempty"`      // absolute base units
	Pct     int    `json:"pct,omitempty"`      // percent of the reference balance (bank balance for delegate, position for un/redelegate)
	All     bool   `json:"all,omitempty"`      // the whole reference balance
	AllPlus int64  `json:"all_plus,omitempty"` // reference balance + n (n may be negative)
}

// Op is one message (or harness-level action) inside a block.
type Op struct {
	K     string `json:"k"`
	Who   int    `json:"who,omitempty"`
	Val   int    `json:"val,omitempty"`
	Dst   int    `json:"dst,omitempty"`
	Denom int    `json:"denom,omitempty"`
	Amt   *Amt   `json:"amt,omitempty"`
	Gas   uint64 `json:"gas,omitempty"` // abort fault: finite gas meter for this tx
	Dup   int    `json:"dup,omitempty"` // deliver the same message n more times
	Self  bool   `json:"self,omitempty"` // native ops: the delegator is the operator of Val (its self-delegation)

	// governance
	Authority string            `json:"authority,omitempty"` // gov | user | module | garbage
	Legacy    bool              `json:"legacy,omitempty"`
	Basic     bool              `json:"basic,omitempty"` // run ValidateBasic before the legacy handler
	F         map[string]string `json:"f,omitempty"`     // fields by name

	// slash_direct
	Fraction string `json:"fraction,omitempty"`
	Age      int64  `json:"age,omitempty"`
	To       string `json:"to,omitempty"` // donate target
	Rate     string `json:"rate,omitempty"`
}

type DtSpec struct {
	Ns  int64  `json:"ns,omitempty"`  // plain gap
	To  string `json:"to,omitempty"`  // symbolic target instant: unbonding | redelegation | takerate | start | decay
	Off int64  `json:"off,omitempty"` // offset in ns relative to the target instant
}

type Evidence struct {
	Val      int   `json:"val"`
	Age      int64 `json:"age"`       // infraction height = current height - age
	PowerPct int   `json:"power_pct"` // reported power as percent of the validator's current consensus power
}

type Block struct {
	Dt           DtSpec     `json:"dt"`
	Absent       []int      `json:"absent,omitempty"`
	Evidence     []Evidence `json:"evidence,omitempty"`
	Slashes      []Op       `json:"slashes,omitempty"` // slash_direct events, applied between BeginBlock and the txs
	Ops          []Op       `json:"ops,omitempty"`
	Crash        string     `json:"crash,omitempty"` // "", "before_commit", "after_commit"
	ExportImport bool       `json:"export_import,omitempty"`
	Proposer     int        `json:"proposer,omitempty"`
}

type Schedule struct {
	Version  int     `json:"version"`
	Property string  `json:"property"`
	Seed     uint64  `json:"seed"`
	Run      uint64  `json:"run"`
	Mode     string  `json:"mode,omitempty"` // open | clean
	Config   Config  `json:"config"`
	TailFrom int     `json:"tail_from"` // blocks from this index on form the quiescent tail
	Blocks   []Block `json:"blocks"`
}

type ViolationRec struct {
	Property string `json:"property"`
	Clause   string `json:"clause"`
	Block    int    `json:"block"`
	Step     string `json:"step"`
	Detail   string `json:"detail"`
	Class    string `json:"class"` // fingerprint class used by the minimiser and the known-findings filter
}

type ReplayFile struct {
	Schedule  Schedule      `json:"schedule"`
	Violation *ViolationRec `json:"violation,omitempty"`
	Note      string        `json:"note,omitempty"`
}

func loadReplay(path string) (*ReplayFile, error) {
	b, err := os.ReadFile(path)
	if err != nil {
		return nil, err
	}
	var rf ReplayFile
	if err := json.Unmarshal(b, &rf); err != nil {
		return nil, err
	}
	return &rf, nil
}

func saveJSON(path string, v any) error {
	b, err := json.MarshalIndent(v, "", " ")
	if err != nil {
		return err
	}
	return os.WriteFile(path, b, 0o644)
}

func cloneSchedule(s *Schedule) *Schedule {
	b, _ := json.Marshal(s)
	var c Schedule
	_ = json.Unmarshal(b, &c)
	return &c
}
